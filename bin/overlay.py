"""Build the verification overlay: a scratch copy of /repo's *current working tree* crates with
harness modules appended to the unmodified real source files and model crates patched in.

No line of a real source file is altered or removed; the only edits are
  * Cargo.toml: drop [lints]/benches/dev-dependencies, add an empty [workspace], add
    [patch.crates-io] entries for the model crates under /verif/models;
  * append `#[cfg(kani)] #[path = ".../harness/<x>.rs"] mod verif_<x>;` lines at the end of the
    real source files listed in APPEND (harness modules become children of the real modules and
    see their private items).
"""
import os
import re
import shutil
import subprocess
import tempfile

VERIF = os.path.dirname(os.path.dirname(os.path.abspath(__file__)))
REPO = os.environ.get("VERIF_REPO", "/repo")

# real source file (relative to repo root) -> harness module file under /verif/harness
APPEND = {
    "mla/src/layers/encrypt.rs": "encrypt",
    "mla/src/layers/compress.rs": "compress",
    "mla/src/layers/raw.rs": "raw",
    "mla/src/layers/position.rs": "position",
    "mla/src/lib.rs": "lib",
    "mla/src/crypto/aesgcm.rs": "aesgcm",
    "mla/src/crypto/ecc.rs": "ecc",
    "mla/src/crypto/hash.rs": "hash",
    "mla/src/config.rs": "config",
    "bindings/C/src/lib.rs": "cbind",
}

MODEL_CRATES = ["aes", "ctr", "ghash", "brotli", "rand", "rand_chacha", "hkdf", "sha2", "x25519-dalek"]


class OverlayError(Exception):
    pass


def _strip_section(text, header_regex):
    """remove a TOML table (from its header up to the next header or EOF)"""
    return re.sub(header_regex + r".*?(?=^\[|\Z)", "", text, flags=re.S | re.M)


def models_available():
    out = []
    for m in MODEL_CRATES:
        if os.path.isfile(os.path.join(VERIF, "models", m, "Cargo.toml")):
            out.append(m)
    return out


def build(scratch_root=None, models=None, shared_prelude=True):
    """returns (overlay_dir, info dict). Caller removes overlay_dir."""
    base = scratch_root or os.environ.get("VERIF_SCRATCH") or tempfile.gettempdir()
    os.makedirs(base, exist_ok=True)
    ov = tempfile.mkdtemp(prefix="mlaverif.", dir=base)
    info = {"overlay": ov, "appended": [], "models": []}
    for crate in ("mla", "curve25519-parser", "bindings/C"):
        src = os.path.join(REPO, crate)
        if not os.path.isdir(src):
            raise OverlayError(f"missing crate directory {src}")
        dst = os.path.join(ov, crate)
        shutil.copytree(src, dst, ignore=shutil.ignore_patterns("target", "benches", "tests", "*.mla"))
    lock = os.path.join(REPO, "Cargo.lock")
    if not os.path.isfile(lock):
        raise OverlayError("missing Cargo.lock")

    use_models = [m for m in (models if models is not None else models_available())]
    patch = "\n[patch.crates-io]\n" + "".join(
        f'{m} = {{ path = "{VERIF}/models/{m}" }}\n' for m in use_models
    )
    info["models"] = use_models

    # --- mla/Cargo.toml
    p = os.path.join(ov, "mla", "Cargo.toml")
    t = open(p).read()
    t = _strip_section(t, r"^\[lints\]")
    t = _strip_section(t, r"^\[\[bench\]\]")
    t = _strip_section(t, r"^\[dev-dependencies\]")
    # fallback build of the harness modules without the harnesses that name private functions
    # (see bin/check: a change of such a function's signature otherwise stops every harness)
    if re.search(r"^\[features\]", t, re.M):
        t = re.sub(r"^\[features\]\n", "[features]\nverif_api_only = []\n", t, count=1, flags=re.M)
    else:
        t += "\n[features]\nverif_api_only = []\n"
    t += "\n[workspace]\n" + patch
    open(p, "w").write(t)
    shutil.copy(lock, os.path.join(ov, "mla", "Cargo.lock"))

    # --- curve25519-parser/Cargo.toml (only used as a dependency of bindings)
    p = os.path.join(ov, "curve25519-parser", "Cargo.toml")
    t = open(p).read()
    t = _strip_section(t, r"^\[lints\]")
    t = _strip_section(t, r"^\[dev-dependencies\]")
    open(p, "w").write(t)

    # --- a second, harness-free copy of mla for the bindings overlay (the mla harness modules
    #     need model crates that curve25519-parser cannot be built against)
    plain = os.path.join(ov, "mla_plain")
    shutil.copytree(os.path.join(REPO, "mla"), plain, ignore=shutil.ignore_patterns("target", "benches", "tests", "*.mla"))
    pp = os.path.join(plain, "Cargo.toml")
    tt = open(pp).read()
    tt = _strip_section(tt, r"^\[lints\]")
    tt = _strip_section(tt, r"^\[\[bench\]\]")
    tt = _strip_section(tt, r"^\[dev-dependencies\]")
    open(pp, "w").write(tt)
    # verification-only constructors for the C-interface harnesses (cfg(kani); see harness/plain_hooks)
    for name, rel in (("encrypt.rs", "src/layers/encrypt.rs"), ("config.rs", "src/config.rs"), ("lib.rs", "src/lib.rs")):
        hook = os.path.join(VERIF, "harness", "plain_hooks", name)
        if os.path.isfile(hook) and os.path.isfile(os.path.join(plain, rel)):
            with open(os.path.join(plain, rel), "a") as f:
                f.write(open(hook).read())

    # --- bindings/C/Cargo.toml
    p = os.path.join(ov, "bindings", "C", "Cargo.toml")
    t = open(p).read()
    t = t.replace('path = "../../mla"', 'path = "../../mla_plain"')
    t = _strip_section(t, r"^\[lints\]")
    t = t.replace('crate-type = ["cdylib", "staticlib"]', 'crate-type = ["lib"]')
    # models that would break curve25519-parser's own dependencies are not patched here
    bpatch = "\n[patch.crates-io]\n" + "".join(
        f'{m} = {{ path = "{VERIF}/models/{m}" }}\n' for m in use_models if m in ("aes", "ctr", "ghash", "brotli")
    )
    t += "\n[workspace]\n" + bpatch
    open(p, "w").write(t)
    shutil.copy(lock, os.path.join(ov, "bindings", "C", "Cargo.lock"))

    # --- snapshot of the harness sources (a run is not disturbed by later edits under /verif)
    hdir = os.path.join(ov, "harness")
    shutil.copytree(os.path.join(VERIF, "harness"), hdir)
    # --- append harness modules to the real, unmodified source files
    for rel, name in APPEND.items():
        hfile = os.path.join(hdir, name + ".rs")
        if not os.path.isfile(hfile):
            continue
        dst = os.path.join(ov, rel)
        if not os.path.isfile(dst):
            raise OverlayError(f"expected source file {rel} is missing from the working tree")
        with open(dst, "a") as f:
            f.write(
                f'\n#[cfg(kani)]\n#[path = "{hfile}"]\npub(crate) mod verif_{name};\n'
            )
        info["appended"].append(rel)
    # nightly library feature needed to *name* `Vec<T, A>` in a stub signature (cfg(kani) only)
    lib = os.path.join(ov, "mla", "src", "lib.rs")
    src = open(lib).read()
    open(lib, "w").write("#![cfg_attr(kani, feature(allocator_api))]\n" + src)
    # shared helpers (abstract streams, cheap stubs) live in the crate root of mla
    common = os.path.join(hdir, "common.rs")
    if shared_prelude and os.path.isfile(common):
        with open(os.path.join(ov, "mla", "src", "lib.rs"), "a") as f:
            f.write(f'\n#[cfg(kani)]\n#[path = "{common}"]\npub(crate) mod verif_common;\n')
    return ov, info


def repo_fingerprint():
    """git HEAD + dirty flag of /repo, for the evidence file"""
    try:
        head = subprocess.run(["git", "-C", REPO, "rev-parse", "HEAD"], capture_output=True, text=True).stdout.strip()
        dirty = subprocess.run(["git", "-C", REPO, "status", "--porcelain", "--", "mla", "bindings", "curve25519-parser"],
                               capture_output=True, text=True).stdout.strip()
        return {"head": head, "dirty": bool(dirty)}
    except Exception:
        return {"head": "unknown", "dirty": True}


if __name__ == "__main__":
    ov, info = build()
    print(ov)
    print(info)
