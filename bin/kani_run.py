"""Run `cargo kani` on an overlay crate for a set of harnesses and parse the per-harness results."""
import os
import re
import shutil
import subprocess
import time

VERIF = os.path.dirname(os.path.dirname(os.path.abspath(__file__)))

MODPATH = {
    "encrypt": "layers::encrypt::verif_encrypt",
    "compress": "layers::compress::verif_compress",
    "raw": "layers::raw::verif_raw",
    "position": "layers::position::verif_position",
    "lib": "verif_lib",
    "aesgcm": "crypto::aesgcm::verif_aesgcm",
    "ecc": "crypto::ecc::verif_ecc",
    "hash": "crypto::hash::verif_hash",
    "config": "config::verif_config",
    "cbind": "verif_cbind",
}
CRATE_DIR = {"mla": "mla", "cbind": os.path.join("bindings", "C")}
CACHE = os.path.join(VERIF, ".cache")


def fq(h):
    return MODPATH[h["module"]] + "::" + h["name"]


def seed_target(ov, crate):
    """copy the cached dependency build (if any) so only the overlay crate itself is compiled"""
    src = os.path.join(CACHE, "target-" + crate)
    dst = os.path.join(ov, "target-" + crate)
    if os.path.isdir(src) and not os.path.isdir(dst):
        subprocess.run(["cp", "-a", src, dst], check=False)
    return dst


def run_group(ov, crate, harnesses, env_extra, jobs, log_path, playback=False, overall_timeout=None, scaled=False):
    """returns (results: {name: result}, build_ok, raw_log_path, wall_s)"""
    cdir = os.path.join(ov, CRATE_DIR[crate])
    tdir = seed_target(ov, crate)
    cmd = ["cargo", "kani", "-Z", "stubbing", "-Z", "unstable-options", "--no-assertion-reach-checks",
           "--target-dir", tdir, "--exact"]
    for h in harnesses:
        cmd += ["--harness", fq(h)]
    tmo = max(h["timeout"] for h in harnesses)
    cmd += ["--harness-timeout", f"{tmo}s"]
    feats = []
    if scaled:
        # verification-only cargo feature of the mla crate (scaled-down size constants)
        feats.append("mla_verif" if crate == "mla" else "mla/mla_verif")
    if env_extra.get("VERIF_API_ONLY") == "1" and crate == "mla":
        # overlay-only feature: harnesses that name private functions are compiled out
        feats.append("verif_api_only")
    if feats:
        cmd += ["--features", ",".join(feats)]
    if playback:
        cmd += ["-Z", "concrete-playback", "--concrete-playback=print", "--no-memory-safety-checks"]
    else:
        cmd += ["-j", str(max(2, min(jobs, len(harnesses)))), "--output-format", "terse"]
    env = dict(os.environ)
    env.update({"CARGO_NET_OFFLINE": "true", "CARGO_TERM_COLOR": "never"})
    env.update(env_extra)
    t0 = time.time()
    # `ulimit -s unlimited`: CBMC recursion depth on large programs; `ulimit -v`: 24 GB per process
    sh = "ulimit -s unlimited 2>/dev/null; ulimit -v 25165824 2>/dev/null; exec " + " ".join(
        "'" + c.replace("'", "'\\''") + "'" for c in cmd)
    with open(log_path, "w") as lf:
        try:
            p = subprocess.run(["bash", "-c", sh], cwd=cdir, env=env, stdout=lf, stderr=subprocess.STDOUT,
                               timeout=overall_timeout or (tmo * 2 + 600))
            rc = p.returncode
        except subprocess.TimeoutExpired:
            rc = -9
    wall = time.time() - t0
    text = open(log_path, errors="replace").read()
    return parse(text, harnesses), rc, wall


RESULT_RE = re.compile(r"VERIFICATION:- (SUCCESSFUL|FAILED)")


def parse(text, harnesses):
    """parse terse/regular kani output. Returns {harness name: dict}"""
    res = {}
    for h in harnesses:
        res[h["name"]] = {"status": "NO_RESULT", "failed_checks": [], "checks_total": 0, "checks_failed": 0,
                          "covers_total": 0, "covers_sat": 0, "verification_time_s": None, "stubs_applied": []}
    build_failed = bool(re.search(r"^error(\[E\d+\])?:", text, re.M)) and "Checking harness" not in text
    # split into per-thread streams
    thread_of = {}
    blocks = {}
    cur_thread = None
    single = None
    for ln in text.split("\n"):
        m = re.match(r"(?:Thread (\d+): )?Checking harness (\S+?)\.\.\.", ln)
        if m:
            name = m.group(2).split("::")[-1]
            if m.group(1) is not None:
                thread_of[m.group(1)] = name
                cur_thread = None
            else:
                single = name
            blocks.setdefault(name, [])
            continue
        m = re.match(r"Thread (\d+):\s?(.*)$", ln)
        if m:
            cur_thread = m.group(1)
            name = thread_of.get(cur_thread)
            if name:
                blocks[name].append(m.group(2))
            continue
        if cur_thread is not None and thread_of.get(cur_thread):
            blocks[thread_of[cur_thread]].append(ln)
            if ln.startswith("Verification Time:"):
                cur_thread = None
        elif single:
            blocks[single].append(ln)
    for name, lines in blocks.items():
        if name not in res:
            continue
        r = res[name]
        b = "\n".join(lines)
        m = RESULT_RE.search(b)
        if m:
            r["status"] = m.group(1)
        m = re.search(r"\*\* (\d+) of (\d+) failed", b)
        if m:
            r["checks_failed"], r["checks_total"] = int(m.group(1)), int(m.group(2))
        m = re.search(r"\*\* (\d+) of (\d+) cover properties satisfied", b)
        if m:
            r["covers_sat"], r["covers_total"] = int(m.group(1)), int(m.group(2))
        m = re.search(r"Verification Time: ([\d.]+)s", b)
        if m:
            r["verification_time_s"] = float(m.group(1))
        for fm in re.finditer(r'Failed Checks: (.*)\n\s*File: "([^"]*)", line (\d+), in (\S+)', b):
            r["failed_checks"].append({"desc": fm.group(1).strip().strip('"'), "file": fm.group(2),
                                       "line": int(fm.group(3)), "function": fm.group(4)})
        # failed checks without a location line
        for fm in re.finditer(r"Failed Checks: (.*)\n(?!\s*File:)", b):
            r["failed_checks"].append({"desc": fm.group(1).strip().strip('"'), "file": "", "line": 0, "function": ""})
        r["stubs_applied"] = re.findall(r"- Stub: (.*)", b)
        if "CBMC timed out" in b or "timed out" in b.lower() and r["status"] == "NO_RESULT":
            r["status"] = "TIMEOUT"
        if re.search(r"unwinding assertion", b):
            r["unwinding_failure"] = True
        if "Status: ERROR" in b or "out of memory" in b.lower():
            r["status"] = "ERROR"
        # concrete playback tests (regular format): one per failed check AND per satisfied cover;
        # keep the ones generated for failed checks (kind != cover), in order
        tests = []
        for tm in re.finditer(r"/// Check for `(\w+)`: \"+(.*?)\"+\s*\n(.*?)let concrete_vals: Vec<Vec<u8>> = vec!\[(.*?)\n\s*\];", b, re.S):
            kind, desc, _mid, body = tm.group(1), tm.group(2), tm.group(3), tm.group(4)
            vals = []
            for vm in re.finditer(r"vec!\[([\d,\s]*)\]", body):
                s = vm.group(1).strip()
                vals.append([int(x) for x in s.split(",") if x.strip()] if s else [])
            tests.append({"kind": kind, "desc": desc, "vals": vals})
        # witnesses of failed checks first; cover witnesses (inputs inside an interesting region) are
        # kept as further candidates for the native replay
        r["playback_tests"] = [x for x in tests if x["kind"] != "cover"] + [x for x in tests if x["kind"] == "cover"]
        if r["playback_tests"]:
            r["concrete_vals"] = r["playback_tests"][0]["vals"]
    if build_failed:
        for r in res.values():
            r["status"] = "BUILD_ERROR"
    return res


def classify(fc):
    """kind of a failed check: 'property' (assert in a harness file), 'panic' (panic/overflow/index inside
    real code), 'unwind', 'unsupported'"""
    d = fc["desc"].lower()
    if "unwinding assertion" in d or "recursion unwinding" in d:
        return "unwind"
    if "unsupported" in d or "not currently supported" in d or "is not supported" in d:
        return "unsupported"
    if "/harness/" in fc["file"]:
        return "property"
    return "panic"
