"""Harness registry: metadata is written next to each harness as `//@ key: value` comment lines
directly above its `#[kani::proof]` attribute in /verif/harness/*.rs and parsed here.

keys:
  props      space-separated property ids the harness serves
  tier       quick | thorough          (thorough harnesses run only in the thorough tier)
  functions  real functions symbolically executed (free text list, `;` separated)
  bounds     stated bounds (free text; `{NBITS}` etc. are substituted from the tier environment)
  stubs      stubs/contracts in force (`;` separated)
  outside    what lies outside the claim
  replay     <template> <input names in draw order as name:type ...>   (native replay template)
  known      ids of known findings whose regions are carved out inside this harness
  timeout    per-harness timeout in seconds (default 900)
"""
import os
import re

VERIF = os.path.dirname(os.path.dirname(os.path.abspath(__file__)))

CRATE_OF_FILE = {
    "encrypt": "mla", "compress": "mla", "raw": "mla", "position": "mla", "lib": "mla",
    "aesgcm": "mla", "ecc": "mla", "hash": "mla", "config": "mla", "cbind": "cbind",
}


def load():
    out = {}
    hdir = os.path.join(VERIF, "harness")
    for fn in sorted(os.listdir(hdir)):
        if not fn.endswith(".rs") or fn == "common.rs":
            continue
        mod = fn[:-3]
        lines = open(os.path.join(hdir, fn)).read().split("\n")
        meta = {}
        i = 0
        while i < len(lines):
            ln = lines[i].strip()
            m = re.match(r"//@\s*(\w+)\s*:\s*(.*)$", ln)
            if m:
                k, v = m.group(1), m.group(2).strip()
                meta[k] = (meta[k] + " " + v) if k in meta else v
            elif ln.startswith("#[kani::proof"):
                # find fn name
                j = i
                attrs = []
                while j < len(lines) and not re.match(r"\s*(pub(\(crate\))?\s+)?fn\s+\w+", lines[j]):
                    attrs.append(lines[j].strip())
                    j += 1
                if j >= len(lines):
                    break
                name = re.match(r"\s*(?:pub(?:\(crate\))?\s+)?fn\s+(\w+)", lines[j]).group(1)
                unwind = None
                kstubs = []
                for a in attrs:
                    mu = re.match(r"#\[kani::unwind\((\d+)\)\]", a)
                    if mu:
                        unwind = int(mu.group(1))
                    ms = re.match(r"#\[kani::stub\((.*)\)\]", a)
                    if ms:
                        kstubs.append(ms.group(1))
                h = {
                    "name": name,
                    "module": mod,
                    "crate": CRATE_OF_FILE.get(mod, "mla"),
                    "props": meta.get("props", "").split(),
                    "tier": meta.get("tier", "quick"),
                    "functions": [s.strip() for s in meta.get("functions", "").split(";") if s.strip()],
                    "bounds": meta.get("bounds", ""),
                    "stubs": [s.strip() for s in meta.get("stubs", "").split(";") if s.strip()],
                    "kani_stubs": kstubs,
                    "outside": meta.get("outside", ""),
                    "replay": meta.get("replay", ""),
                    "known": meta.get("known", "").split(),
                    "expect_fail": meta.get("expect_fail", "").strip() or None,
                    "scaled": meta.get("scaled", "").strip().lower() in ("yes", "true", "1"),
                    "api_only": meta.get("api_only", "").strip().lower() in ("yes", "true", "1"),
                    "timeout": int(meta.get("timeout", "900")),
                    "unwind": unwind,
                    "line": j + 1,
                }
                out[name] = h
                meta = {}
                i = j
            elif ln and not ln.startswith("//") and not ln.startswith("#["):
                # any other code line ends a metadata block
                if meta and not ln.startswith("#"):
                    meta = {}
            i += 1
    return out


if __name__ == "__main__":
    import json
    print(json.dumps(load(), indent=1))
