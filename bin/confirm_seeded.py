#!/usr/bin/env python3
"""bin/confirm_seeded.py <jobs> <worktree>:<mutant dir> ...
Independent confirmation of a seeded change before it is kept under /verif/seeded:
  1. demo on the pristine worktree                      -> must PASS
  2. demo with the change applied                       -> must FAIL
  3. whole pinned suite with the change (no demo)       -> must PASS (the known-flaky
     mlar::integration::test_repair_auth_unauth is ignored)
Writes <mutant dir>/confirm.json. The worktree is left clean."""
import concurrent.futures as cf
import json
import os
import re
import subprocess
import sys

FLAKY = "test_repair_auth_unauth"


def sh(cmd, cwd, timeout=3600):
    p = subprocess.run(cmd, cwd=cwd, shell=True, capture_output=True, text=True, timeout=timeout,
                       env=dict(os.environ, CARGO_NET_OFFLINE="true", CARGO_TERM_COLOR="never"))
    return p.returncode, p.stdout + p.stderr


def placement(demo):
    head = "\n".join(open(demo).read().split("\n")[:25])
    m = re.search(r"(mla/tests/[\w\-]+\.rs)", head)
    if m:
        return ("copy", m.group(1))
    m = re.search(r"(mla/src/[\w/]+\.rs|bindings/C/src/lib\.rs)", head)
    if m:
        return ("append", m.group(1))
    return (None, None)


def run_cmd(demo):
    head = "\n".join(open(demo).read().split("\n")[:25])
    m = re.search(r"(cargo test --offline -p [\w\-]+ [^\n`]*)", head)
    return m.group(1).strip() if m else None


def clean(wt):
    sh("git checkout -- . && git clean -fdq -- mla mlar bindings curve25519-parser", wt)


def place(wt, demo):
    kind, path = placement(demo)
    if kind == "copy":
        subprocess.run(["cp", demo, os.path.join(wt, path)], check=True)
    elif kind == "append":
        with open(os.path.join(wt, path), "a") as f:
            f.write("\n" + open(demo).read())
    else:
        raise RuntimeError("no placement found in " + demo)


def confirm(spec):
    wt, mdir = spec.split(":")
    demo = os.path.join(mdir, "demo.rs")
    patch = os.path.join(mdir, "patch.diff")
    cmd = run_cmd(demo)
    res = {"worktree": wt, "demo_cmd": cmd, "placement": placement(demo)}
    try:
        clean(wt)
        place(wt, demo)
        rc, out = sh(cmd, wt)
        res["demo_pristine"] = "pass" if rc == 0 else "FAIL"
        res["demo_pristine_tail"] = out[-400:]
        clean(wt)
        rc, out = sh(f"git apply {patch}", wt)
        if rc != 0:
            res["error"] = "patch does not apply: " + out[-200:]
            return mdir, res
        place(wt, demo)
        rc, out = sh(cmd, wt)
        res["demo_with_change"] = "fail" if rc != 0 else "PASS"
        res["demo_with_change_tail"] = out[-600:]
        clean(wt)
        sh(f"git apply {patch}", wt)
        rc, out = sh("cargo test --workspace --no-fail-fast --offline", wt, timeout=5400)
        failed = sorted(set(re.findall(r"^test (\S+) \.\.\. FAILED", out, re.M)))
        res["suite_failed_tests"] = failed
        res["suite_with_change"] = "pass" if all(FLAKY in f for f in failed) and "error: could not compile" not in out else "FAIL"
        res["suite_summary"] = re.findall(r"^test result: .*", out, re.M)
    except Exception as e:  # noqa: BLE001
        res["error"] = repr(e)
    finally:
        clean(wt)
    res["confirmed"] = (res.get("demo_pristine") == "pass" and res.get("demo_with_change") == "fail"
                        and res.get("suite_with_change") == "pass")
    json.dump(res, open(os.path.join(mdir, "confirm.json"), "w"), indent=1)
    return mdir, res


if __name__ == "__main__":
    jobs = int(sys.argv[1])
    # changes that share a worktree are confirmed one after the other
    groups = {}
    for spec in sys.argv[2:]:
        groups.setdefault(spec.split(":")[0], []).append(spec)

    def run_group(specs):
        return [confirm(s) for s in specs]

    with cf.ThreadPoolExecutor(jobs) as ex:
        for results in ex.map(run_group, groups.values()):
            for mdir, res in results:
                print(mdir, "confirmed" if res.get("confirmed") else "NOT CONFIRMED",
                      {k: res.get(k) for k in ("demo_pristine", "demo_with_change", "suite_with_change", "suite_failed_tests", "error")})
                sys.stdout.flush()
