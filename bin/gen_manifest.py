#!/usr/bin/env python3
"""Regenerate /verif/MANIFEST.json from the per-property table below and the harness registry
(a property is claimed iff it has a quick harness and an entry in CLAIMS)."""
import json
import os
import sys

HERE = os.path.dirname(os.path.abspath(__file__))
sys.path.insert(0, HERE)
import registry  # noqa: E402

VERIF = os.path.dirname(HERE)

TECH = ("bounded model checking of the real Rust source (Kani 0.68 -> CBMC 6.11 -> CaDiCaL SAT): symbolic inputs and "
        "pre-states, unwinding assertions on, counterexamples replayed natively against the real crate")

# property -> (design_ref, level text, level note)
CONTRACT_NOTE = ("Assume/guarantee decomposition: functions that only move bytes (chunk load, brotli, AES/GHASH) are replaced by "
                 "contracts on lengths/positions in position harnesses, and each contract is checked against the real body by a "
                 "refinement harness (at scaled constants via the cargo feature mla_verif where a whole chunk must be executed). "
                 "Model crates stand for aes/ctr/ghash/brotli; alloc::fmt::format and From<mla::Error> for io::Error are stubbed "
                 "(error text and payload are outside every property). Bounds are per harness in the evidence file. ")

CLAIMS = {
    "C01": ("§5 C01",
            "Solver-decided: the position/size arithmetic that writer and readers must agree on for EVERY alignment — tagged/untagged "
            "position maps, encryption seek and sequential read bookkeeping, the encryption writer step (chunk roll-over, tag placement, "
            "counter, keystream position; enumerated size pairs at scaled constants), compression size-table lookups, block change and "
            "re-sync, per-file run bookkeeping, position-layer byte counting, hashing of exactly the bytes copied. Byte fidelity through "
            "real AES/brotli/SHA-256, the compression WRITER and the HashMap-based name/offset index are outside (seeded changes C01-A/B "
            "there are missed, see DESIGN §13.7).",
            CONTRACT_NOTE + "Not decided: ArchiveWriter/ArchiveReader API level (HashMaps, bincode footer), hashing, compression levels, recipients."),
    "C02": ("§5 C02",
            "Solver-decided for the layer fail-safe readers that repair consumes: for ANY cut length (also inside a tag, 1..15 bytes after a "
            "chunk edge, inside a brotli block) they do not panic, deliver only a prefix of the original stream and end with Ok(0)/Err; the "
            "real load bodies are total on every remaining length; the encryption repair reader is built and ends cleanly over an EMPTY "
            "stream (cut right after the header); an exhausted source is never parsed as a block.",
            CONTRACT_NOTE + "Not decided: the repair block loop (convert_to_archive: four HashMaps, hash check, UnfinishedFiles report)."),
    "C03": ("§5 C03",
            "Solver-decided under an explicit ideal-MAC assumption: the real load_in_cache accepts a chunk only if its tag verifies, leaves no "
            "byte of a rejected chunk readable, binds the nonce to the big-endian chunk index — also as the SECOND of two loads at arbitrary "
            "chunk indices 0..3 (no state left by an earlier load switches the check off); read_internal/seek expose data only from a "
            "cache filled by a successful authenticated load of the right chunk and propagate the error.",
            CONTRACT_NOTE + "Assumes AES-GCM is a secure MAC (AesGcm256::decrypt stub: tag matches iff chunk authentic). Not decided: header fields "
            "through bincode, names from list_files. The wrapped-key unwrap (ecc) returns a key only for an entry whose 16-byte tag matches "
            "entirely (stored tag = genuine tag XOR any 128-bit difference)."),
    "C04": ("§5 C04",
            "Solver-decided for the encryption fail-safe reader in authenticated mode: bytes come only from chunks whose tag verified, "
            "contiguously from the start; after the first rejected chunk every later read returns 0 and loads nothing; unauthenticated mode "
            "returns every data byte present. Known finding F4 (chunk 0 never verified) is carved out and witnessed.",
            CONTRACT_NOTE + "Not decided: the block loop above the layer; adversarial content parsing."),
    "C05": ("§5 C05",
            "Solver-decided: the fail-safe decompressor never reports end of data (Ok(0)) while compressed input or decoded output remains, "
            "never drops decoder-pending output, keeps its cache invariant and starts the next block right after the consumed bytes — by a "
            "one-pass induction over ANY cache/decoder state; the encryption fail-safe reader returns all bytes of complete chunks.",
            CONTRACT_NOTE + "brotli is an over-approximating contract model: a pass transfers to real brotli, counterexamples are confirmed natively "
            "with the real crate. Not decided: the content loop of convert_to_archive, monotonicity above the layers."),
    "C06": ("§5 C06",
            "Solver-decided: format constants and block-type bytes for all 256 tag values, exact serialisation bytes of every block kind, "
            "chunk nonce = archive nonce || big-endian index, chunk/tag/block size constants used by the position maps.",
            CONTRACT_NOTE + "Real AES/GHASH/HKDF/X25519 values are checked only in the native replay templates (independent aes-gcm/hkdf crates), "
            "not by the solver. Not decided: bincode header/footer layout, brotli bit stream, layer order in from_config."),
    "C07": ("§5 C07",
            "Solver-decided over model rand/x25519/HKDF primitives: the symmetric key and archive nonce of every configuration are the "
            "generator output for OS entropy drawn for that configuration (never a constant or a fixed seed; distinct entropy gives "
            "distinct keys); recipients handed over in several add_public_keys calls all stay; producing the header (to_persistent) draws fresh OS "
            "entropy for the ephemeral scalar and the header carries that scalar's public key; one wrapped key per recipient, each "
            "computed as AES-GCM(HKDF-SHA256(X25519(eph, recipient), 'KEY DERIVATION'), 'ECIES NONCE0'); unwrap returns a key only for an "
            "entry whose tag verifies; candidate private keys are tried in turn and position does not matter; every byte the encryption "
            "writer forwards is plaintext XOR keystream of (key, nonce || BE32(chunk index)).",
            CONTRACT_NOTE + "OS entropy is a ghost symbolic array; the generator / DH / KDF are models that keep only *which inputs reach which "
            "primitive*. Not decided: statistical freshness, absence of plaintext under real AES, cross-process runs."),
    "C08": ("§5 C08",
            "Solver-decided panic-freedom (overflow checks on) of the length/offset/index arithmetic fed by untrusted bytes, for ALL 64-bit "
            "values: encryption seek on any inner length and offset, chunk load on any remaining length, raw seek, footer location in both "
            "footers, compression reader on arbitrary size tables/positions/offsets incl. use after an error, per-file reader on arbitrary "
            "block headers.",
            CONTRACT_NOTE + "Not decided: ArchiveFileBlock::from itself (name allocation/UTF-8 did not finish), bincode/serde/HashMap internals, "
            "brotli internals, time and memory proportions, recursion depth of block skipping."),
    "C09": ("§5 C09",
            "Solver-decided for the block serialisation kernel: a refused file start (name > 65536 bytes) writes nothing; a content source "
            "shorter than the announced size is never reported as success; a successful dump writes exactly header + announced bytes; "
            "finalize() while a file is open is refused and leaves the writer state and the sink unchanged; append_file_content / end_file "
            "for ANY id and size on a writer with no open file are refused, write nothing and leave the bookkeeping untouched.",
            CONTRACT_NOTE + "Not decided: everything that needs a populated ArchiveWriter state (files_info / ids_info / hashes HashMaps): "
            "duplicate names, ended ids (anything that INSERTS into a HashMap does not finish; operations on empty tables do, with "
            "std::hash::RandomState::new stubbed by fixed keys)."),
    "C10": ("§5 C10",
            "Solver-decided as post-state independence: after seek(Start(p)) the observable reader state of the encryption and compression "
            "readers is a function of p and the stream only, whatever the (fully symbolic) pre-state; per-file reader bookkeeping for any "
            "remaining count and buffer size.",
            CONTRACT_NOTE + "Not decided: get_hash/list_files (HashMap), real data."),
    "C11": ("§5 C11",
            "Solver-decided for every stream length and target inside the bounds: the real Seek implementations of the encryption, "
            "compression and raw layer readers return the positions an in-memory cursor over the layer's plaintext returns, find the end "
            "for every residue modulo the chunk/block size (exact multiples, empty, partial), sequential reads return min(buffer, rest) and "
            "0 exactly at the end. Bounded (lengths < 2^40 quick / 2^48 thorough), not a proof.",
            CONTRACT_NOTE + "Byte values returned by read() follow from the load contract + refinement, not from real ciphertext; stacked layers are "
            "covered layer by layer."),
    "C13": ("§5 C13",
            "Solver-decided: the position layer counts exactly the bytes the inner writer accepted for any partial-acceptance schedule; the "
            "fail-safe decompressor gives the same result for any short-read schedule of its source (one-pass induction); chunk loads "
            "consume exactly min(remaining, chunk+tag).",
            CONTRACT_NOTE + "std write_all / read_to_end / io::copy are trusted to loop over partial transfers. Not decided: end-to-end archive equality."),
    "C20": ("§5 C20",
            "Solver-decided with Kani's pointer checks on: every C entry point called with each pointer argument NULL, with missing "
            "callbacks, and with handle slots that hold NULL (handles the interface cleared on release) returns BadAPIArgument without "
            "dereferencing anything and without consuming the configuration; the callback-backed Write/Read adapters return exactly the "
            "count the callback reported and map a non-zero status to an error; (thorough tier) mla_archive_close on a writer that must "
            "refuse to finalize (a file still open) returns an error, writes nothing, releases the writer once and leaves the caller's "
            "handle slot NULL.",
            "Harness module appended to the real bindings/C/src/lib.rs; the mla dependency is a harness-free overlay copy (model crates for "
            "aes/ctr/ghash/brotli) to which a cfg(kani)-only constructor is appended (harness/plain_hooks) so that a writer can sit behind a "
            "handle without running mla_archive_new. Not decided: archives produced or extracted through the C API (PEM parsing, RNG, "
            "HashMap inserts), a close that fails while the footer is written."),
    "C14": ("§5 C14",
            "Solver-decided: when its input ends the fail-safe decompressor first delivers everything the decoder still holds (no Ok(0)/Err "
            "with pending output); flush of the position layer and of the compression writer (any block fill, also exactly 4 MiB) flushes "
            "the compressor first and reaches the inner writer; ArchiveWriter::flush reaches the destination in every writer state (no file "
            "open, a file open, finalized); after write + flush of the encryption writer the sink holds every accepted byte; the "
            "unauthenticated chunk load keeps a complete chunk whose tag is missing.",
            CONTRACT_NOTE + "Assumes brotli's flush makes all input decodable (brotli contract). Not decided: write()/finalize() of the "
            "compression writer, the repair loop."),
}

NOT_APPLICABLE = {
    "C12": "linear extraction is routing through two std HashMaps over an ArchiveReader; Kani's hashbrown/SipHash path did not decide 2 inserts + 1 lookup in 60 min, and no kernel separable from the maps exists (DESIGN §6)",
    "C15": "resource property (peak live heap at 1 MiB-1 GiB scale): bounded symbolic execution has no notion of live heap and growth only shows beyond any unwinding bound (DESIGN §6)",
    "C16": "effects are filesystem operations of the mlar binary; the only pure kernel runs on std::path::Components, whose symbolic execution needed 24 min + 34 GB for 4-byte names (DESIGN §6)",
    "C17": "whole-program runs of the CLI across processes, files, clap and tar: nothing symbolic to decide beyond C01/C11 (DESIGN §6)",
    "C18": "third-party DER/PEM parser stack (der-parser/nom, pem, base64) and curve arithmetic: DER path alone did not get through symbolic execution in 11 min / 8 GB (DESIGN §6)",
    "C19": "algorithm is inline in mlar's keygen/keyderive command functions (clap in, files out) and its conformance needs real SHA-512/ChaCha20/HKDF values, which the solver cannot evaluate symbolically (DESIGN §6)",
}

PENDING = "check under construction in this session: harnesses for this property are not registered yet (see DESIGN §5 for the plan)"


def main():
    reg = registry.load()
    props = [json.loads(l)["id"] for l in open(os.path.join(VERIF, "properties.jsonl")) if l.strip()]
    quick = {p for h in reg.values() if h["tier"] == "quick" for p in h["props"]}
    thorough = {p for h in reg.values() for p in h["props"]}
    checks = []
    na = []
    for p in props:
        if p in CLAIMS and p in quick:
            ref, text, note = CLAIMS[p]
            c = {
                "property_id": p,
                "quick_cmd": f"bin/check {p} --tier quick",
                "thorough_cmd": f"bin/check {p} --tier thorough",
                "evidence_file": f"/verif/evidence/{p}.json",
                "replay_cmd_template": "bin/replay-show {path}",
                "engine": "kani-overlay",
                "level_claimed": {"category": "model_checking", "text": text, "design_ref": ref},
                "level_note": note,
                "technique": TECH,
            }
            checks.append(c)
        else:
            na.append({"property_id": p, "reason": NOT_APPLICABLE.get(p, PENDING)})
    m = {
        "version": 1,
        "setup_cmd": "bin/setup",
        "hooks": {
            "guard": "cargo feature `mla_verif` of the mla crate (off by default)",
            "enable": "harnesses marked `//@ scaled: yes` are built with `cargo kani --features mla_verif` on the overlay copy of the working tree "
                      "(scaled-down layer size constants: chunk 4, cipher buffer 3, compression block 8, fail-safe cache 8, repair buffer 8); "
                      "every other harness uses the production constants with the feature off. Harness modules themselves are appended to a "
                      "scratch copy (bin/overlay.py) under cfg(kani): nothing else is added to /repo",
            "baseline_off_cmd": "cd /repo && cargo test --workspace --no-fail-fast --offline",
            "source_commits": ["91bca98"],
            "add_only": True,
        },
        "engines": [{
            "name": "kani-overlay",
            "path": "/verif/bin/check",
            "serves_properties": [c["property_id"] for c in checks],
            "kind_free_text": "Kani 0.68 / CBMC 6.11 bounded model checker over an overlay copy of /repo's working tree; "
                              "model crates for aes/ctr/ghash/brotli; native replay of counterexamples with the real crates",
        }],
        "checks": checks,
        "not_applicable": na,
        "notes": "exit 0 = all harnesses verified within stated bounds; exit 1 = VIOLATION reproduced natively; exit 2 = inconclusive "
                 "(timeout, OOM, overlay build failure, unwinding bound, non-reproducing counterexample). See DESIGN.md.",
    }
    json.dump(m, open(os.path.join(VERIF, "MANIFEST.json"), "w"), indent=1)
    print(f"claimed: {[c['property_id'] for c in checks]}; not_applicable: {[n['property_id'] for n in na]}")


if __name__ == "__main__":
    main()
