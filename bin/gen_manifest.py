#!/usr/bin/env python3
"""Regenerate /verif/MANIFEST.json from the per-property table below and the harness registry
(a property is claimed iff it has a quick harness and an entry in CLAIMS)."""
import json
import os
import sys

HERE = os.path.dirname(os.path.abspath(__file__))
sys.path.insert(0, HERE)
import registry  # noqa: E402

VERIF = os.path.dirname(HERE)

TECH = ("bounded model checking of the real Rust source (Kani 0.68 -> CBMC 6.11 -> CaDiCaL SAT): symbolic inputs and "
        "pre-states, unwinding assertions on, counterexamples replayed natively against the real crate")

# property -> (design_ref, level text, level note)
CLAIMS = {
    "C11": ("§5 C11",
            "Solver-decided for every stream length and target inside the bounds: the real Seek implementations of the "
            "encryption, compression and raw layer readers return the positions an in-memory cursor over the layer's "
            "plaintext returns, find the end for every residue modulo the chunk/block size, and leave a post-state that "
            "is a function of the target only. Bounded (lengths < 2^40 quick / 2^48 thorough), not a proof.",
            "Chunk loading and decompression are replaced by contracts on lengths/positions (each contract is checked "
            "against the real body by a refinement harness); AES/GHASH/brotli are model crates; error text is stubbed. "
            "Byte values returned by read() follow from the load contract, not from real ciphertext."),
}

NOT_APPLICABLE = {
    "C12": "linear extraction is routing through two std HashMaps over an ArchiveReader; Kani's hashbrown/SipHash path did not decide 2 inserts + 1 lookup in 60 min, and no kernel separable from the maps exists (DESIGN §6)",
    "C15": "resource property (peak live heap at 1 MiB-1 GiB scale): bounded symbolic execution has no notion of live heap and growth only shows beyond any unwinding bound (DESIGN §6)",
    "C16": "effects are filesystem operations of the mlar binary; the only pure kernel runs on std::path::Components, whose symbolic execution needed 24 min + 34 GB for 4-byte names (DESIGN §6)",
    "C17": "whole-program runs of the CLI across processes, files, clap and tar: nothing symbolic to decide beyond C01/C11 (DESIGN §6)",
    "C18": "third-party DER/PEM parser stack (der-parser/nom, pem, base64) and curve arithmetic: DER path alone did not get through symbolic execution in 11 min / 8 GB (DESIGN §6)",
    "C19": "algorithm is inline in mlar's keygen/keyderive command functions (clap in, files out) and its conformance needs real SHA-512/ChaCha20/HKDF values, which the solver cannot evaluate symbolically (DESIGN §6)",
}

PENDING = "check under construction in this session: harnesses for this property are not registered yet (see DESIGN §5 for the plan)"


def main():
    reg = registry.load()
    props = [json.loads(l)["id"] for l in open(os.path.join(VERIF, "properties.jsonl")) if l.strip()]
    quick = {p for h in reg.values() if h["tier"] == "quick" for p in h["props"]}
    thorough = {p for h in reg.values() for p in h["props"]}
    checks = []
    na = []
    for p in props:
        if p in CLAIMS and p in quick:
            ref, text, note = CLAIMS[p]
            c = {
                "property_id": p,
                "quick_cmd": f"bin/check {p} --tier quick",
                "thorough_cmd": f"bin/check {p} --tier thorough",
                "evidence_file": f"/verif/evidence/{p}.json",
                "replay_cmd_template": "bin/replay-show {path}",
                "engine": "kani-overlay",
                "level_claimed": {"category": "model_checking", "text": text, "design_ref": ref},
                "level_note": note,
                "technique": TECH,
            }
            checks.append(c)
        else:
            na.append({"property_id": p, "reason": NOT_APPLICABLE.get(p, PENDING)})
    m = {
        "version": 1,
        "setup_cmd": "bin/setup",
        "hooks": {
            "guard": "none",
            "enable": "no hook in /repo: harness modules are appended to a scratch copy of the working tree (bin/overlay.py) and compiled with cfg(kani)",
            "baseline_off_cmd": "cd /repo && cargo test --workspace --no-fail-fast --offline",
            "source_commits": [],
            "add_only": True,
        },
        "engines": [{
            "name": "kani-overlay",
            "path": "/verif/bin/check",
            "serves_properties": [c["property_id"] for c in checks],
            "kind_free_text": "Kani 0.68 / CBMC 6.11 bounded model checker over an overlay copy of /repo's working tree; "
                              "model crates for aes/ctr/ghash/brotli; native replay of counterexamples with the real crates",
        }],
        "checks": checks,
        "not_applicable": na,
        "notes": "exit 0 = all harnesses verified within stated bounds; exit 1 = VIOLATION reproduced natively; exit 2 = inconclusive "
                 "(timeout, OOM, overlay build failure, unwinding bound, non-reproducing counterexample). See DESIGN.md.",
    }
    json.dump(m, open(os.path.join(VERIF, "MANIFEST.json"), "w"), indent=1)
    print(f"claimed: {[c['property_id'] for c in checks]}; not_applicable: {[n['property_id'] for n in na]}")


if __name__ == "__main__":
    main()
