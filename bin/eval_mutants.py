#!/usr/bin/env python3
"""bin/eval_mutants.py <jobs> <wt>:<patch>:<PROP>[,<PROP>...] ...  — first-pass evaluation of seeded changes in their own
worktrees (VERIF_REPO), several at a time; /repo is not touched. Results: /tmp/mutout/<label>/result.txt"""
import os, subprocess, sys, concurrent.futures as cf
VERIF = os.path.dirname(os.path.dirname(os.path.abspath(__file__)))
def run(spec):
    wt, patch, props = spec.split(":")
    label = os.path.basename(wt) + "_" + os.path.basename(os.path.dirname(patch))
    out = f"/tmp/mutout/{label}"
    os.makedirs(out, exist_ok=True)
    subprocess.run(["git", "-C", wt, "checkout", "--", "."], check=False)
    a = subprocess.run(["git", "-C", wt, "apply", patch], capture_output=True, text=True)
    if a.returncode != 0:
        return label, "patch does not apply: " + a.stderr[:200]
    res = []
    try:
        for p in props.split(","):
            env = dict(os.environ, VERIF_REPO=wt, VERIF_OUTDIR=out, VERIF_JOBS="8")
            r = subprocess.run([os.path.join(VERIF, "bin", "check"), p, "--tier", os.environ.get("VERIF_EVAL_TIER", "quick"), "--no-evidence"], env=env, capture_output=True, text=True)
            lines = [l for l in r.stdout.split("\n") if l.startswith(("VIOLATION", "INCONCLUSIVE", "  solver", "  native", "[check"))]
            res.append(f"{p} exit={r.returncode}\n" + "\n".join(l[:500] for l in lines))
    finally:
        subprocess.run(["git", "-C", wt, "checkout", "--", "."], check=False)
    txt = "\n".join(res)
    open(os.path.join(out, "result.txt"), "w").write(txt)
    return label, txt
jobs = int(sys.argv[1])
with cf.ThreadPoolExecutor(jobs) as ex:
    for label, txt in ex.map(run, sys.argv[2:]):
        print("=====", label)
        print(txt)
        sys.stdout.flush()
