"""Replay of solver counterexamples against the real build.

1. the failing harness is re-run under Kani's concrete playback (with the witness size cap
   `VERIF_REPLAY_CAP=1`, so that the witness can be materialised) to obtain concrete input values;
2. the values instantiate a native replay template: a `#[cfg(test)]` module under /verif/replay,
   appended to a scratch copy of the *real* mla crate (real aes/ghash/brotli, no model crate, no
   stub) and run with `cargo test` in the dev profile (overflow checks on, like the suite) and in
   the release profile;
3. only a natively reproduced violation is reported as VIOLATION.
"""
import json
import os
import re
import shutil
import subprocess
import time

import kani_run
import overlay

VERIF = os.path.dirname(os.path.dirname(os.path.abspath(__file__)))
REPO = overlay.REPO

NATIVE_APPEND = {
    "mla/src/layers/encrypt.rs": "encrypt",
    "mla/src/layers/compress.rs": "compress",
    "mla/src/lib.rs": "lib",
    "mla/src/layers/raw.rs": "raw",
    "mla/src/layers/position.rs": "position",
    "mla/src/crypto/aesgcm.rs": "aesgcm",
    "mla/src/crypto/ecc.rs": "ecc",
    "bindings/C/src/lib.rs": "cbind",
}

API_ONLY = [False]  # set by confirm() from the check's environment

SIZES = {"u8": 1, "bool": 1, "u16": 2, "u32": 4, "i32": 4, "u64": 8, "i64": 8, "usize": 8, "u128": 16}


def decode(vals, sig):
    """vals: list of byte lists in draw order; sig: ['n:u64', 'd:i64', ...] -> dict"""
    out = {}
    i = -1
    for item in sig:
        name, ty = item.split(":")
        if ty.startswith("skip"):
            # `_:skipN` — N draws the template does not need (e.g. the bytes of an array)
            i += int(ty[4:] or 1)
            continue
        i += 1
        if i >= len(vals):
            break
        b = bytes(vals[i])
        if ty == "bool":
            out[name] = 1 if b and b[0] else 0
        elif ty.startswith("i"):
            out[name] = int.from_bytes(b, "little", signed=True)
        elif ty.startswith("bytes"):
            out[name] = b.hex()
        else:
            out[name] = int.from_bytes(b, "little", signed=False)
    return out


TEST_PREFIX = {"cbind": "", "encrypt": "layers::encrypt::", "compress": "layers::compress::", "raw": "layers::raw::",
               "position": "layers::position::", "lib": "", "aesgcm": "crypto::aesgcm::", "ecc": "crypto::ecc::"}


def full_test_path(template):
    mod = template.split("::")[0]
    name = mod.replace("verif_replay_", "")
    return TEST_PREFIX.get(name, "") + template


def build_native(ov):
    nat = os.path.join(ov, "native")
    if os.path.isdir(nat):
        return nat
    os.makedirs(nat)
    for crate in ("mla", "curve25519-parser", os.path.join("bindings", "C")):
        shutil.copytree(os.path.join(REPO, crate), os.path.join(nat, crate),
                        ignore=shutil.ignore_patterns("target", "benches"))
    # bindings/C as its own workspace root
    p = os.path.join(nat, "bindings", "C", "Cargo.toml")
    t = open(p).read()
    t = overlay._strip_section(t, r"^\[lints\]")
    t += "\n[workspace]\n"
    open(p, "w").write(t)
    shutil.copy(os.path.join(REPO, "Cargo.lock"), os.path.join(nat, "bindings", "C", "Cargo.lock"))
    os.symlink(os.path.join(REPO, "samples"), os.path.join(nat, "samples"))
    p = os.path.join(nat, "mla", "Cargo.toml")
    t = open(p).read()
    t = overlay._strip_section(t, r"^\[lints\]")
    t = overlay._strip_section(t, r"^\[\[bench\]\]")
    t = re.sub(r"^criterion.*\n", "", t, flags=re.M)
    t += "\n[workspace]\n"
    open(p, "w").write(t)
    p = os.path.join(nat, "curve25519-parser", "Cargo.toml")
    t = open(p).read()
    t = overlay._strip_section(t, r"^\[lints\]")
    open(p, "w").write(t)
    shutil.copy(os.path.join(REPO, "Cargo.lock"), os.path.join(nat, "mla", "Cargo.lock"))
    rdir = os.path.join(nat, "replay")
    shutil.copytree(os.path.join(VERIF, "replay"), rdir)
    for rel, name in NATIVE_APPEND.items():
        rf = os.path.join(rdir, name + ".rs")
        if os.path.isfile(rf):
            with open(os.path.join(nat, rel), "a") as f:
                f.write(f'\n#[cfg(test)]\n#[path = "{rf}"]\nmod verif_replay_{name};\n')
    return nat


def run_native(ov, template, values, outdir, tag, profiles=("dev", "release"), scaled=False):
    """run native template; returns dict(status, summary, log)"""
    nat = build_native(ov)
    cache = os.path.join(kani_run.CACHE, "target-native")
    tdir = os.path.join(ov, "target-native")
    if os.path.isdir(cache) and not os.path.isdir(tdir):
        subprocess.run(["cp", "-a", cache, tdir], check=False)
    env = dict(os.environ)
    env.update({"CARGO_NET_OFFLINE": "true", "CARGO_TERM_COLOR": "never", "RUST_BACKTRACE": "0"})
    for k, v in values.items():
        env["VR_" + k] = str(v)
    if os.environ.get("VERIF_API_ONLY") == "1" or API_ONLY[0]:
        # templates that call private functions directly are compiled out (see bin/check: fallback
        # after a build error of the harness modules)
        env["RUSTFLAGS"] = (env.get("RUSTFLAGS", "") + " --cfg verif_api_only").strip()
    res = {"status": "not-reproduced", "summary": "", "profiles": {}}
    for prof in profiles:
        log = os.path.join(outdir, f"native-{tag}-{prof}.log")
        cmd = ["cargo", "test", "--offline", "--lib", "--target-dir", tdir]
        if prof == "release":
            cmd.append("--release")
        if scaled:
            cmd += ["--features", "mla_verif"]
        cmd += ["--", full_test_path(template), "--exact", "--nocapture", "--test-threads", "1"]
        is_c = template.startswith("verif_replay_cbind")
        if is_c and scaled:
            cmd[-2:] = ["--features", "mla/mla_verif"] if cmd[-2] == "--features" else cmd[-2:]
        with open(log, "w") as lf:
            try:
                p = subprocess.run(cmd, cwd=os.path.join(nat, "bindings", "C") if is_c else os.path.join(nat, "mla"), env=env, stdout=lf, stderr=subprocess.STDOUT, timeout=1500)
                rc = p.returncode
            except subprocess.TimeoutExpired:
                rc = -9
        text = open(log, errors="replace").read()
        m = re.findall(r"REPLAY-RESULT: (reproduced|not-reproduced|skipped)(.*)", text)
        ran = re.search(r"running 1 test", text)
        if not ran:
            res["profiles"][prof] = "template did not run (build error or unknown test name)"
            continue
        if m:
            st, rest = m[-1]
            res["profiles"][prof] = st + rest
            if st == "reproduced":
                res["status"] = "reproduced"
                res["summary"] = f"[{prof}] " + rest.strip()
        elif "panicked at" in text:
            pm = re.search(r"panicked at ([^\n]*)\n([^\n]*)", text)
            res["profiles"][prof] = "panic: " + (pm.group(0).replace("\n", " ") if pm else "")
            res["status"] = "reproduced"
            res["summary"] = f"[{prof}] real code panicked: " + (pm.group(0).replace("\n", " ") if pm else "")
        else:
            res["profiles"][prof] = f"no verdict (rc={rc})"
    if res["status"] != "reproduced":
        res["summary"] = "; ".join(f"{k}: {v}" for k, v in res["profiles"].items())
    return res


def confirm(h, r, ov, env, outdir):
    """obtain concrete values for failing harness h and replay them natively"""
    API_ONLY[0] = env.get("VERIF_API_ONLY") == "1"
    spec = h.get("replay", "").split()
    if not spec:
        return {"status": "no-template", "summary": "no native replay template registered for this harness"}
    template = spec[0]
    consts = {s.split("=")[0]: s.split("=")[1] for s in spec[1:] if "=" in s}
    sig = [s for s in spec[1:] if ":" in s]
    t0 = time.time()
    if not sig:
        # the template takes no solver-chosen value (a fixed scenario): no playback run is needed
        out = run_native(ov, template, dict(consts), outdir, h["name"], scaled=h.get("scaled", False))
        out["values"] = dict(consts)
        out["template"] = template
        out["witnesses_tried"] = []
        out["playback_s"] = 0.0
        out["native_s"] = round(time.time() - t0, 1)
        return out
    env2 = dict(env)
    env2["VERIF_REPLAY_CAP"] = "1"
    log = os.path.join(outdir, f"playback-{h['name']}.log")
    res, rc, wall = kani_run.run_group(ov, h["crate"], [h], env2, 1, log, playback=True, scaled=h.get("scaled", False))
    pr = res[h["name"]]
    tests = pr.get("playback_tests") or []
    if pr["status"] == "SUCCESSFUL":
        return {"status": "no-small-witness",
                "summary": "no counterexample exists under the witness size cap (VERIF_REPLAY_CAP): the violation only "
                           "manifests for streams too large to materialise natively", "playback_s": round(wall, 1)}
    if not tests:
        # no witness could be extracted (playback ran out of memory / time): the template is still a
        # native check of the same property on the real crates — run it on its built-in scenario
        out = run_native(ov, template, dict(consts), outdir, h["name"] + "-defaults", scaled=h.get("scaled", False))
        if out["status"] == "reproduced":
            out["values"] = dict(consts)
            out["template"] = template
            out["witnesses_tried"] = []
            out["note"] = f"concrete playback produced no values (status {pr['status']}); reproduced on the template's built-in scenario"
            out["playback_s"] = round(wall, 1)
            return out
        return {"status": "no-values", "summary": f"concrete playback produced no values (status {pr['status']}) and the template's built-in scenario does not reproduce",
                "playback_s": round(wall, 1)}
    # one witness per failed check: replay them in turn until one reproduces (at most 6; cover-region witnesses come last)
    tried = []
    out = None
    seen = set()
    for k, tcase in enumerate(tests):
        values = decode(tcase["vals"], sig)
        values.update(consts)
        key = json.dumps(values, sort_keys=True)
        if key in seen:
            continue
        seen.add(key)
        if len(tried) >= 6:
            break
        out = run_native(ov, template, values, outdir, f"{h['name']}-{len(tried)}", scaled=h.get("scaled", False))
        out["values"] = values
        out["for_check"] = tcase["desc"]
        tried.append({"check": tcase["desc"], "values": values, "status": out["status"], "summary": out["summary"][:300]})
        if out["status"] == "reproduced":
            break
    out["witnesses_tried"] = tried
    out["template"] = template
    out["playback_s"] = round(wall, 1)
    out["total_s"] = round(time.time() - t0, 1)
    return out
