#!/usr/bin/env python3
"""Assemble /verif/seeded/<id>/ (patch.diff, demo.rs, notes.md, meta.json) from the sub-agents' deliverables
(/tmp/mut_<PROP>/out/<A|B>/) once they have been confirmed (confirm.json) and evaluated (RESULTS below)."""
import json
import os
import shutil

VERIF = os.path.dirname(os.path.dirname(os.path.abspath(__file__)))

# id -> (property, one-line description, what it needs to manifest, detection)
# detection: ("detected", check property, detecting harness(es), native replay summary) or ("missed", reason)
RESULTS = {
    "C01-A": ("C01", "compression writer closes a full 4 MiB block eagerly; finalize in Ready state then records last_block_size = 0",
              "total stream handed to the compression layer an exact multiple of 4 MiB",
              ("missed", "CompressionLayerWriter::{write,finalize} is outside the claim: its harness did not finish (boxed dyn Error in WriterWithCount::write), see DESIGN §13.3")),
    "C01-B": ("C01", "append_file_content marks a run change for an EMPTY piece (early return moved below mark_continuous_block)",
              "interleaving: A non-empty, B empty, A again, then another file's block before A ends",
              ("missed", "ArchiveWriter's offset index lives in HashMaps (ids_info): API level is outside the claim")),
    "C02-A": ("C02", "ArchiveFileBlock::from reads the file name with take(len).read_to_end instead of read_exact: a cut inside a name yields a shortened name",
              "truncation inside the name bytes of a FileStart block, layers none/encrypt",
              ("detected", "C02", ["h_lib_from_name"], "a file start announcing a 3-byte name with only 2 bytes present was accepted with the name \"nn\"")),
    "C02-B": ("C02", "load_in_cache fills the chunk cache before comparing the tag",
              "cut >= 16 bytes into chunk >= 1, authenticated repair, content that parses as blocks",
              ("detected", "C02", ["h_enc_load_auth_refines", "h_enc_load_auth_refines_short"], "bytes of a rejected chunk left in the cache")),
    "C03-A": ("C03", "load_in_cache decrypts in place in the cache + seek fast path when the target chunk is the cached one",
              "failed access to an altered chunk >= 1 followed by a second access to the same chunk",
              ("detected", "C03", ["h_enc_seek_end", "h_enc_load_auth_refines"], "seek post-state: target chunk not re-authenticated / rejected chunk left in cache")),
    "C03-B": ("C03", "decryption mode stored in the shared internal reader: the NORMAL reader stops checking tags on sequential chunk change when the repair-only option is set",
              "ArchiveReader config with failsafe_return_data_even_unauthenticated(), altered chunk reached by sequential reading",
              ("detected", "C03", ["h_enc_read_step"], "sequential read across the chunk edge returned bytes of an altered chunk (repair-only option set)")),
    "C04-A": ("C04", "load_in_cache reuses the cache allocation: unauthenticated plaintext stays cached after a tag mismatch",
              "failing chunk >= 1 and a read after the Ok(0)",
              ("detected", "C04", ["h_enc_load_auth_refines", "h_enc_load_auth_refines_short"], "bytes of a rejected chunk left in the cache")),
    "C04-B": ("C04", "cache clear/cursor reset kept only in the end-of-stream branch of load_in_cache: after a tag failure the reader resumes with chunk k+1",
              "failing middle chunk and a read after the Ok(0)",
              ("detected", "C04", ["h_enc_load_auth_refines"], "bytes of a rejected chunk left in the cache / cursor not reset")),
    "C05-A": ("C05", "fail-safe decompressor guard `uncompressed_read > 4 MiB` became `>=`",
              "block output complete but end marker not yet consumed (1-byte source or compressed block N*4096+1 bytes long)",
              ("detected", "C05", ["h_cmp_fs_pass"], "intact 3-block stream through a 1-byte source recovered 4194304 of 9786714 bytes")),
    "C05-B": ("C05", "load_in_cache_unauthenticated skips the tag with ONE read whose result is ignored",
              "encrypted stream > 1 chunk read from a source returning < 16 bytes on the read that falls on a tag",
              ("detected", "C05", ["h_enc_load_unauth_refines_short"], "inner stream at 71, expected 80")),
    "C06-A": ("C06", "chunk counter written little-endian in the GCM nonce (symmetric: writer and readers agree)",
              "chunk index >= 1 (payload > 128 KiB); committed sample has one chunk",
              ("detected", "C06", ["h_enc_nonce", "h_enc_load_auth_refines_short"], "chunk 1 does not authenticate under nonce || BE32(1) with the independent aes-gcm crate")),
    "C06-B": ("C06", "ENCRYPT and COMPRESS bits swapped in the header Layers bitflags",
              "archive with exactly one of the two layers",
              ("detected", "C06", ["h_lib_consts"], "layer bits differ from FORMAT.md")),
    "C07-A": ("C07", "candidate-key loop rewritten with find(Result::is_ok): stops at the first candidate",
              "non-recipient key ahead of the recipient's in the candidate list",
              ("detected", "C07", ["h_enc_recipients"], "archive not opened although candidate list contains the recipient's key")),
    "C07-B": ("C07", "process-wide OnceLock<ChaChaRng> cloned for every configuration: same key and nonce for every archive of a process",
              "two configurations created in one process",
              ("detected", "C07", ["h_cfg_fresh_secrets"], "two configurations created in a row share their symmetric key")),
    "C08-A": ("C08", "move_to_next_block checks the run limit before incrementing: offsets[len] indexed",
              "foreign-id block met while the file has no further run (flipped id byte / crafted index)",
              ("detected", "C08", ["h_lib_b2f_step"], "real code panicked: index out of bounds: the len is 3 but the index is 3")),
    "C08-B": ("C08", "SeekFrom::End of the encryption reader: checked_sub replaced by plain subtraction",
              "encrypted archive truncated exactly at the end of its header (0-byte stream)",
              ("detected", "C08", ["h_enc_seek_total"], "real code panicked: attempt to subtract with overflow")),
    "C09-A": ("C09", "`>=` instead of `>` on the name limit in ArchiveFileBlock::dump",
              "name of exactly 65536 bytes",
              ("detected", "C09", ["h_lib_dump_name"], "a 65536-byte name was refused")),
    "C09-B": ("C09", "finalize() sets Finalized before checking for open files",
              "start_file, refused finalize, then further calls",
              ("detected", "C09", ["h_lib_writer_refused"], "append after a refused finalize: WrongArchiveWriterState { current_state: Finalized }")),
    "C10-A": ("C10", "compression seek forward-skip shortcut computes the current block from underlayer_pos instead of the decompressor's block",
              "block consumed to its last byte, file abandoned, seek into the next block",
              ("detected", "C10", ["h_cmp_seek_start"], "after reading block 0 to its last byte, seek(Start) then read failed: WrongReaderState(Too much data read)")),
    "C10-B": ("C10", "encryption seek 'chunk already cached' shortcut identifies the cached chunk from the position instead of current_chunk_number",
              "read stopping on a chunk end, file abandoned, open a file in the next chunk",
              ("detected", "C10", ["h_enc_seek_start", "h_enc_seek_end", "h_enc_seek_current"], "stream_position() after seek(Start(524256)) = 393184")),
    "C11-A": ("C11", "seek(Start) of the encryption reader treats load_in_cache() == None as EndOfStream",
              "plaintext length a non-zero multiple of 128 KiB and a seek target of exactly len",
              ("detected", "C11", ["h_enc_seek_end", "h_enc_seek_start"], "seek to the end fails with EndOfStream")),
    "C11-B": ("C11", "compression SeekFrom::Current forward fast path leaves the in-block read counter stale",
              "stream of > 1 block, Current(+n) inside a non-last block, then reads across the block end",
              ("detected", "C11", ["h_cmp_seek_cur_indata"], "after seek(Start) then Current(+n) sequential reading returned 1048576 bytes, the stream holds 1048704 more")),
    "C13-A": ("C13", "chunk tag written with write() instead of write_all() at roll-over",
              "encrypt layer, > 128 KiB, sink accepting < 16 bytes on that call",
              ("detected", "C13", ["h_enc_w_4_0", "h_enc_w_4_1", "h_enc_w_4_6"], "30 bytes emitted for 12 plaintext bytes through a 1-byte sink (60 expected)")),
    "C13-B": ("C13", "load_in_cache loads the chunk with ONE read instead of take().read_to_end()",
              "source returning fewer bytes than asked",
              ("detected", "C13", ["h_enc_load_auth_refines_short"], "inner stream at 7, expected 10")),
    "C14-A": ("C14", "compression writer skips the brotli flush when the block holds exactly 4 MiB",
              "flush with an exact multiple of 4 MiB in the compression layer, then cut",
              ("detected", "C14", ["h_cmp_writer_flush"], "4194304 bytes written, flush() returned, destination cut there (0 bytes): repair recovers 0 bytes")),
    "C14-B": ("C14", "load_in_cache_unauthenticated reads the tag with read_exact when the chunk is full: a stream ending right after a full chunk loses it",
              "flush + cut with an exact multiple of 128 KiB in the encryption layer, unauthenticated repair",
              ("detected", "C14", ["h_enc_load_unauth_refines", "h_enc_load_unauth_refines_short"], "unauthenticated load failed: UnexpectedEof (failed to fill whole buffer)")),
    "C20-A": ("C20", "CallbackOutput::write returns the offered length instead of the count the callback accepted",
              "write callback accepting only part of the buffer",
              ("detected", "C20", ["h_c_adapter"], "callback (status 0, accepted 0) -> write returned Ok(6)")),
    "C20-B": ("C20", "mla_archive_close clears the caller's handle only when finalize succeeds",
              "close that fails (failing callback / open file), then the handle used again",
              ("detected", "C20", ["h_c_close_open_file"], "mla_archive_close failed with status 0xb0000 and left the caller's handle set: the archive behind it is already released", "thorough")),
    # ---- second round (sub-agents were also given the list of first-round changes so as not to repeat them)
    "C02-C": ("C02", "fail-safe decompressor: input-cache fill offset assigned (`=`) instead of advanced (`+=`) (same patch as C05-C, delivered for C02)",
              "a refill that tops up a partly filled 4 KiB cache (source returning short reads)",
              ("detected", "C02", ["h_cmp_fs_pass"], "intact 3-block stream through a 1-byte source recovered 0 bytes")),
    "C02-D": ("C02", "fail-safe decompressor returns Ok(0) when a compressed block ends without output in that pass",
              "end marker of a block consumed in a pass that produces no byte (1-byte source; block output complete earlier)",
              ("detected", "C02", ["h_cmp_fs_pass"], "intact 3-block stream through a 1-byte source recovered 4194304 of 9786714 bytes")),
    "C03-C": ("C03", "chunk tag compared with a hand-written loop using `=` instead of `|=`: only byte 15 of the tag is checked",
              "altered chunk whose stored tag still matches in its last byte",
              ("detected", "C03", ["h_enc_load_auth_refines", "h_enc_load_auth_refines_short"], "load_in_cache accepted a chunk that cannot authenticate (tag altered at the byte the solver chose)")),
    "C03-D": ("C03", "wrapped-key tag compared from index 1: byte 0 of the key-wrapping GCM tag never checked",
              "header whose wrapped-key entry has tag byte 0 altered",
              ("detected", "C03", ["h_ecc_unwrap_only_verified"], "retrieve_key returned a key although both stored tags were altered (differences in byte 0 only)")),
    "C05-C": ("C05", "fail-safe decompressor: input-cache fill offset assigned (`=`) instead of advanced (`+=`)",
              "a refill that tops up a partly filled 4 KiB cache (source returning short reads)",
              ("detected", "C05", ["h_cmp_fs_pass"], "intact 3-block stream through a 1-byte source recovered 0 bytes")),
    "C05-D": ("C05", "per-block output counter not reset when a compressed block ends in a pass without output",
              "end marker consumed in a pass producing nothing, then a following block",
              ("detected", "C05", ["h_cmp_fs_pass"], "intact 3-block stream through a 1-byte source recovered 4194304 of 9786714 bytes")),
    "C08-C": ("C08", "sync_inner_with_uncompressed_pos slices the size table `[..block_num]` instead of iter().take()",
              "footer size table whose last_block_size puts the end position beyond the listed blocks",
              ("detected", "C08", ["h_cmp_total_read", "h_cmp_total_seek"], "real code panicked: range end index 1024 out of range for slice of length 2")),
    "C08-D": ("C08", "compression seek(Start) no longer refuses the Empty placeholder state left by a failed operation",
              "failed read/seek (damaged block) followed by a seek",
              ("detected", "C08", ["h_cmp_total_read"], "real code panicked: [Reader] Empty type to inner is impossible")),
    "C11-C": ("C11", "tag_position_to_no_tag_position clamps the in-chunk offset to CHUNK_SIZE - 1",
              "SeekFrom::End on a stream whose last chunk is exactly full",
              ("detected", "C11", ["h_enc_maps_inv", "h_enc_seek_end"], "seek(End(-786432)) on a stream of 786432 plaintext bytes failed; map off by one at a chunk end")),
    "C11-D": ("C11", "compression seek to the very end records the block-rounded position instead of the target",
              "seek landing exactly on the end of the stream, then position-relative operations",
              ("detected", "C11", ["h_cmp_seek_cur_indata"], "after seek(Start) then Current(+n) to the end, sequential reading returned 3708590 bytes, the stream holds 0 more")),
    "C13-C": ("C13", "HashWrapperReader::read hashes the whole destination buffer instead of the bytes returned",
              "content source returning fewer bytes than asked",
              ("detected", "C13", ["h_hash_wrapper"], "hash accumulated while copying through a 1-byte source differs from SHA-256 of the bytes returned")),
    "C13-D": ("C13", "fail-safe decompressor takes a refill that does not fill the cache as end of input",
              "archive source returning short reads during repair",
              ("detected", "C13", ["h_cmp_fs_pass"], "intact 3-block stream through a 1-byte source recovered 0 bytes")),
    # ---- third round (sub-agents also given the list of first- and second-round changes)
    "C04-E": ("C04", "fail-safe encryption reader no longer preloads chunk 0; read() loads WITHOUT tag check whenever the cache is empty (also right after a refused chunk)",
              "damaged chunk >= 1 that is not the last, consumer polling again after Ok(0) (convert_to_archive does)",
              ("detected", "C04", ["h_enc_fs_read_auth"], "bytes returned after the reader had reported the end (data after a failed chunk is used)")),
    "C04-F": ("C04", "convert_to_archive keeps the partially filled buffer only when the read error is UnexpectedEof",
              "compression on, byte-level corruption of a middle chunk, unauthenticated mode (decompressor fails with InvalidData)",
              ("missed", "the repair loop ArchiveFailSafeReader::convert_to_archive drives an ArchiveWriter (hash-table inserts): outside the claim, only the layer readers it consumes are decided")),
    "C06-E": ("C06", "CHUNK_SIZE = 128 KiB - 16 in the normal build (writer and readers agree)",
              "more than 131056 bytes through the encryption layer",
              ("detected", "C06", ["h_enc_maps_fwd"], "format constants changed: chunk 131056 tag 16")),
    "C06-F": ("C06", "ECIES nonce numbered per recipient ('ECIES NONCE0', 'ECIES NONCE1', ...) in wrap and unwrap",
              ">= 2 recipients, reader not the first recipient / independent decoder",
              ("detected", "C06", ["h_ecc_wrap_unwrap"], "the entry wrapped for recipient 1 does not decode with X25519 + HKDF-SHA256 + AES-256-GCM('ECIES NONCE0') as documented")),
    "C07-E": ("C07", "add_public_keys replaces the recipient list instead of extending it",
              ">= 2 recipients handed over in more than one call",
              ("detected", "C07", ["h_enc_cfg_recipients_header"], "recipient #0 of 2 (added in separate add_public_keys calls) cannot open the archive")),
    "C07-F": ("C07", "to_persistent seeds the ECIES generator from the archive key instead of the OS",
              "two headers from one configuration / knowledge of the archive key",
              ("detected", "C07", ["h_enc_cfg_recipients_header"], "two headers produced from one configuration carry the same ephemeral public key")),
    "C09-E": ("C09", "start_file detects duplicates with insert(): a refused duplicate remaps the existing name to the id about to be allocated",
              "refused duplicate, then further building and a read back",
              ("missed", "needs inserts into ArchiveWriter's HashMaps (files_info): does not finish under the model checker; only operations on empty tables are decided")),
    "C09-F": ("C09", "append_file_content only checks the writer state, not that the id is open",
              "append to an ended id followed by interleaving, or an empty append to an unknown id",
              ("detected", "C09", ["h_lib_writer_unknown_id"], "append_file_content(id 0, size 0) accepted although that id is not an open file")),
    "C10-E": ("C10", "BlocksToFileReader::read treats a 0-byte read as an empty content block and goes on with the next block header",
              "read with an empty buffer at a content-block edge",
              ("detected", "C10", ["h_lib_b2f_step"], "a read with an empty buffer on file b after 0 bytes returned Err(WrongBlockSubFileType)")),
    "C10-F": ("C10", "compression reader returns early for a 0-byte request after having taken its state: layer left Empty",
              "one read with an empty buffer, then any access",
              ("detected", "C10", ["h_cmp_read_step"], "read at 0 (after a read with an empty buffer) failed: WrongReaderState")),
    "C14-E": ("C14", "encryption writer gathers small writes in a pending buffer; flush() sends it only when the chunk offset is > 0",
              "(bytes through the layer) mod 128 KiB < 4096 at flush time",
              ("detected", "C14", ["h_enc_w_0_1"], "9 plaintext bytes written, flush() returned, the destination holds 40 bytes (41 expected at least)")),
    "C14-F": ("C14", "ArchiveWriter::flush returns early when no file is in progress",
              "compression layer, flush with no file open (add_file then flush)",
              ("detected", "C14", ["h_lib_writer_flush"], "ArchiveWriter::flush() returned without flushing the destination")),
    # ---- fourth round
    "C01-G": ("C01", "compression reader initialize rejects a size table whose last block is exactly 4 MiB (`>=` instead of `>`)",
              "stream handed to the compression layer an exact multiple of 4 MiB",
              ("missed", "the check sits behind the bincode deserialisation of the size table, which does not finish under the model checker (h_cmp_init_total stops before it)")),
    "C01-H": ("C01", "end_file folded into mark_eof: the current-run id is no longer updated when a file is ended inside another file's run",
              "start A, start B, append B, end A, append B",
              ("missed", "ArchiveWriter offset index lives in HashMaps (ids_info): outside the claim")),
    "C02-G": ("C02", "ArchiveFileBlock::from reads the block type with a single read(): an exhausted source parses as EndOfArchiveData",
              "cut exactly on a block boundary with no file open",
              ("detected", "C02", ["h_lib_from_name"], "an exhausted source was parsed as a block (type byte 254): a cut on a block boundary looks like a complete archive")),
    "C02-H": ("C02", "EncryptionLayerFailSafeReader::new turns a missing first chunk into an error",
              "encrypted archive cut exactly at the end of its header",
              ("detected", "C02", ["h_enc_fs_new_empty"], "the repair reader cannot be built over an empty stream (archive cut right after its header): EndOfStream")),
    "C03-G": ("C03", "high-water mark of authenticated chunks: load_in_cache skips the tag check for chunk numbers below it",
              ">= 3 chunks, alteration in a middle chunk (opening the archive authenticates the last chunk first)",
              ("detected", "C03", ["h_enc_load_auth_history"], "after a load of chunk 3 (genuine), chunk 2 whose tag was altered was accepted: 4 bytes exposed")),
    "C03-H": ("C03", "load_in_cache gains a check_tag parameter; a backward seek reloads its chunk without checking the tag",
              "read order that seeks backward onto a chunk never loaded before, alteration in that chunk",
              ("detected", "C03", ["h_enc_seek_real"], "reader at chunk 5, then seek(Start(16)): a byte of chunk 4, whose tag was altered, was returned (api-only fallback: the other harness modules no longer build against the changed signature)")),
    "C08-G": ("C08", "get_file no longer refuses a footer entry with an empty offset list (offsets[0] indexed)",
              "crafted footer entry with zero offsets",
              ("missed", "get_file looks the name up in a populated HashMap: outside the claim (BlocksToFileReader::new itself relies on the caller's guard)")),
    "C08-H": ("C08", "range guard on the chunk number dropped from the encryption reader's seek(Start): position map multiplies with overflow",
              "stored offset / seek target near u64::MAX, encrypt layer without compression",
              ("detected", "C08", ["h_enc_seek_total"], "real code panicked: attempt to multiply with overflow")),
    "C13-G": ("C13", "archive header serialised in memory then emitted with a single write()",
              "destination accepting only part of its first write",
              ("missed", "ArchiveHeader::dump goes through bincode serialisation of the configuration: outside the claim")),
    "C13-H": ("C13", "compression reader chains blocks without re-seeking the inner layer",
              "short-reading archive source (the decompressor stops fetching once a block's output is complete)",
              ("detected", "C13", ["h_cmp_read_step"], "through a source giving 1 byte per read, reading across the block edge at 4194304 returned bytes that differ from the original from the 6th byte on (template's built-in scenario: the witness extraction run of this harness runs out of memory)")),
    "C20-G": ("C20", "mla_archive_file_close clears the caller's file handle before validating the archive handle",
              "NULL archive handle with a live file handle",
              ("detected", "C20", ["h_c_null_args"], "mla_archive_file_close(NULL, &live) cleared the caller's live file handle although the call was refused")),
    "C20-H": ("C20", "callback status helper treats only positive codes as errors",
              "callback failing with a negative code",
              ("detected", "C20", ["h_c_adapter"], "callback (status -2147483648, accepted 0) -> write returned Ok(0)")),
}

# second-round deliverables live in /tmp/m2_<PROP>/out/<A|B>, third-round ones in /tmp/m3_<PROP>/out/<A|B>
ROUND2_SRC = {"C": "A", "D": "B"}
ROUND3_SRC = {"E": "A", "F": "B"}
ROUND4_SRC = {"G": "A", "H": "B"}


def main(overrides=None):
    res = dict(RESULTS)
    ov = os.path.join(VERIF, "seeded", "results_override.json")
    if os.path.isfile(ov):
        for k, v in json.load(open(ov)).items():
            p, d, n, _ = res[k]
            res[k] = (p, d, n, tuple(v))
    out_root = os.path.join(VERIF, "seeded")
    os.makedirs(out_root, exist_ok=True)
    summary = []
    for mid, (prop, desc, needs, det) in sorted(res.items()):
        src = (f"/tmp/m2_{prop}/out/{ROUND2_SRC[mid[-1]]}" if mid[-1] in ROUND2_SRC
               else f"/tmp/m3_{prop}/out/{ROUND3_SRC[mid[-1]]}" if mid[-1] in ROUND3_SRC
               else f"/tmp/m4_{prop}/out/{ROUND4_SRC[mid[-1]]}" if mid[-1] in ROUND4_SRC else f"/tmp/mut_{prop}/out/{mid[-1]}")
        dst = os.path.join(out_root, mid)
        if os.path.isdir(src):
            os.makedirs(dst, exist_ok=True)
            for f in ("patch.diff", "demo.rs", "notes.md"):
                if os.path.isfile(os.path.join(src, f)):
                    shutil.copy(os.path.join(src, f), os.path.join(dst, f))
        if not os.path.isdir(dst):
            continue
        conf = {}
        cj = os.path.join(src, "confirm.json")
        if os.path.isfile(cj):
            c = json.load(open(cj))
            conf = {k: c.get(k) for k in ("demo_cmd", "placement", "demo_pristine", "demo_with_change", "suite_with_change",
                                          "suite_failed_tests", "confirmed")}
        elif os.path.isfile(os.path.join(dst, "meta.json")):
            conf = json.load(open(os.path.join(dst, "meta.json"))).get("confirmation", {})
        meta = {
            "id": mid,
            "property": prop,
            "change": desc,
            "needs_to_manifest": needs,
            "origin": "independent sub-agent given only the property text and a scratch worktree of /repo (nothing from /verif)"
                      + ("; second round: also given a one-line list of the first-round changes (to avoid repeats) and a list of candidate source files" if mid[-1] in "CDEFGH" else ""),
            "confirmation": conf,
            "confirmation_procedure": "bin/confirm_seeded.py in a scratch worktree: demo on the pristine tree passes; demo with the "
                                      "change fails; whole pinned suite with the change passes (flaky test_repair_auth_unauth ignored)",
            "detection": None if det is None else (
                {"status": "detected", "check": f"bin/check {det[1]} --tier {det[4] if len(det) > 4 else 'quick'}", "harnesses": det[2], "exit": 1,
                 "native_replay": det[3]} if det[0] == "detected" else {"status": "missed", "reason": det[1]}),
            "evaluation_procedure": "patch applied (git apply), quick check of the property run, patch undone (bin/eval_mutants.py in the "
                                    "change's own worktree via VERIF_REPO; bin/try_mutant applies to /repo itself)",
        }
        json.dump(meta, open(os.path.join(dst, "meta.json"), "w"), indent=1)
        summary.append((mid, conf.get("confirmed"), None if det is None else det[0]))
    for s in summary:
        print(*s)


if __name__ == "__main__":
    main()
