"""Warm /verif/.cache/target-{mla,cbind,native}: compile dependencies once (offline)."""
import os
import shutil
import subprocess
import sys

HERE = os.path.dirname(os.path.abspath(__file__))
sys.path.insert(0, HERE)
import kani_run  # noqa: E402
import overlay  # noqa: E402
import registry  # noqa: E402
import replay  # noqa: E402


def main():
    only = sys.argv[1:] or ["mla", "cbind", "native"]
    os.makedirs(kani_run.CACHE, exist_ok=True)
    ov, info = overlay.build()
    reg = registry.load()
    rc = 0
    try:
        for crate in ("mla", "cbind"):
            if crate not in only:
                continue
            hs = [h for h in reg.values() if h["crate"] == crate]
            if not hs:
                continue
            tdir = os.path.join(ov, "target-" + crate)
            cmd = ["cargo", "kani", "-Z", "stubbing", "-Z", "unstable-options", "--only-codegen",
                   "--target-dir", tdir, "--exact", "--harness", kani_run.fq(hs[0])]
            env = dict(os.environ, CARGO_NET_OFFLINE="true")
            p = subprocess.run(cmd, cwd=os.path.join(ov, kani_run.CRATE_DIR[crate]), env=env,
                               stdout=subprocess.PIPE, stderr=subprocess.STDOUT, text=True)
            print(p.stdout[-1500:])
            if p.returncode != 0:
                rc = 1
                continue
            dst = os.path.join(kani_run.CACHE, "target-" + crate)
            shutil.rmtree(dst, ignore_errors=True)
            subprocess.run(["cp", "-a", tdir, dst], check=True)
            print(f"cached {dst}")
        if "native" in only:
            nat = replay.build_native(ov)
            tdir = os.path.join(ov, "target-native")
            for prof in ([], ["--release"]):
                cmd = ["cargo", "test", "--offline", "--lib", "--no-run", "--target-dir", tdir] + prof
                p = subprocess.run(cmd, cwd=os.path.join(nat, "mla"), env=dict(os.environ, CARGO_NET_OFFLINE="true"),
                                   stdout=subprocess.PIPE, stderr=subprocess.STDOUT, text=True)
                print(p.stdout[-800:])
                if p.returncode != 0:
                    rc = 1
            dst = os.path.join(kani_run.CACHE, "target-native")
            shutil.rmtree(dst, ignore_errors=True)
            subprocess.run(["cp", "-a", tdir, dst], check=True)
            print(f"cached {dst}")
    finally:
        shutil.rmtree(ov, ignore_errors=True)
    return rc


if __name__ == "__main__":
    sys.exit(main())
