//! Verification model of `rand` 0.9 (the part MLA uses). The operating-system entropy source is a
//! ghost array `ghost::OS_ENTROPY` that a harness fills with symbolic bytes; `from_os_rng()` takes
//! the next 32 of them as seed and counts the call. What a harness can then decide: *every secret
//! is a function of fresh OS entropy* (never a constant, never a fixed seed).
#![no_std]

pub mod ghost {
    /// successive 32-byte blocks handed out by the (modelled) operating system
    pub static mut OS_ENTROPY: [[u8; 32]; 4] = [[0u8; 32]; 4];
    /// number of blocks taken so far
    pub static mut OS_CALLS: usize = 0;
    /// number of generators created from a FIXED seed (from_seed / seed_from_u64)
    pub static mut FIXED_SEEDS: usize = 0;
    pub fn next_os_block() -> [u8; 32] {
        unsafe {
            let i = OS_CALLS;
            OS_CALLS += 1;
            if i < 4 { OS_ENTROPY[i] } else { OS_ENTROPY[3] }
        }
    }
}

pub trait RngCore {
    fn next_u32(&mut self) -> u32;
    fn next_u64(&mut self) -> u64;
    fn fill_bytes(&mut self, dst: &mut [u8]);
}
pub trait CryptoRng: RngCore {}

pub trait SeedableRng: Sized {
    type Seed;
    fn from_seed(seed: Self::Seed) -> Self;
    fn model_from_block(block: [u8; 32]) -> Self;
    fn seed_from_u64(state: u64) -> Self {
        unsafe { ghost::FIXED_SEEDS += 1 };
        let mut b = [0u8; 32];
        b[..8].copy_from_slice(&state.to_le_bytes());
        Self::model_from_block(b)
    }
    /// seeded by the operating system (ghost entropy)
    fn from_os_rng() -> Self {
        Self::model_from_block(ghost::next_os_block())
    }
}

/// values `Rng::random` can produce in this model
pub trait ModelRandom: Sized {
    fn model_random<R: RngCore + ?Sized>(r: &mut R) -> Self;
}
impl<const N: usize> ModelRandom for [u8; N] {
    fn model_random<R: RngCore + ?Sized>(r: &mut R) -> Self {
        let mut a = [0u8; N];
        r.fill_bytes(&mut a);
        a
    }
}
impl ModelRandom for u8 {
    fn model_random<R: RngCore + ?Sized>(r: &mut R) -> Self {
        r.next_u32() as u8
    }
}
impl ModelRandom for u32 {
    fn model_random<R: RngCore + ?Sized>(r: &mut R) -> Self {
        r.next_u32()
    }
}
impl ModelRandom for u64 {
    fn model_random<R: RngCore + ?Sized>(r: &mut R) -> Self {
        r.next_u64()
    }
}

pub trait Rng: RngCore {
    fn random<T: ModelRandom>(&mut self) -> T {
        T::model_random(self)
    }
}
impl<R: RngCore + ?Sized> Rng for R {}

pub mod prelude {
    pub use super::{CryptoRng, Rng, RngCore, SeedableRng};
}
