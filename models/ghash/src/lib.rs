//! Verification model of `ghash` 0.5.1. NOT GHASH: an order- and content-sensitive accumulator
//! `y <- rotl(y ^ block, 5) ^ h` with the same block/padding interface as the real crate,
//! so that *which bytes, in which order, padded how* is what a tag depends on.
#![no_std]
use generic_array::{typenum::U16, GenericArray};

pub type Block = GenericArray<u8, U16>;
pub type Key = GenericArray<u8, U16>;

#[derive(Clone)]
pub struct GHash {
    pub h: u128,
    pub y: u128,
}

#[inline]
fn to_u128(b: &[u8]) -> u128 {
    let mut a = [0u8; 16];
    a.copy_from_slice(b);
    u128::from_be_bytes(a)
}

impl GHash {
    pub fn new(key: &Key) -> Self {
        Self {
            h: to_u128(key.as_slice()),
            y: 0,
        }
    }
    /// model extension: loop-free constructor
    pub fn model_new(h: u128) -> Self {
        Self { h, y: 0 }
    }
    #[inline]
    pub fn absorb(&mut self, b: u128) {
        self.y = (self.y ^ b).rotate_left(5) ^ self.h;
    }
}

pub mod universal_hash {
    use super::{to_u128, Block, GHash};

    pub trait UniversalHash: Sized {
        fn update(&mut self, blocks: &[Block]);
        fn update_padded(&mut self, data: &[u8]);
        fn finalize(self) -> Block;
    }

    impl UniversalHash for GHash {
        fn update(&mut self, blocks: &[Block]) {
            let mut i = 0;
            while i < blocks.len() {
                self.absorb(to_u128(blocks[i].as_slice()));
                i += 1;
            }
        }
        fn update_padded(&mut self, data: &[u8]) {
            let mut off = 0;
            while off < data.len() {
                let n = core::cmp::min(16, data.len() - off);
                let mut a = [0u8; 16];
                a[..n].copy_from_slice(&data[off..off + n]);
                self.absorb(u128::from_be_bytes(a));
                off += n;
            }
        }
        fn finalize(self) -> Block {
            let mut out = Block::default();
            out.as_mut_slice().copy_from_slice(&self.y.to_be_bytes());
            out
        }
    }
}
