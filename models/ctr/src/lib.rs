//! Verification model of `ctr` 0.9.2 (+ the part of `cipher` MLA uses).
//!
//! NOT a cipher. It keeps exactly what MLA's properties observe: *which key*, *which IV
//! (nonce ‖ counter)*, *which keystream offset* were used for each byte. The keystream byte at
//! stream position `p` is byte `p % 16` (big-endian) of `E(iv + p / 16)` where `E` is the model
//! block function of the key — the same composition as the real CTR-128-BE mode.
#![no_std]

pub mod cipher {
    pub use generic_array;
    use generic_array::{
        typenum::{U16, U32},
        GenericArray,
    };

    pub trait BlockEncrypt {
        fn encrypt_block(&self, block: &mut GenericArray<u8, U16>);
        /// model extension: the block function on integers
        fn enc(&self, b: u128) -> u128;
    }
    pub trait KeyInit: Sized {
        fn new(key: &GenericArray<u8, U32>) -> Self;
    }
    pub trait KeyIvInit: Sized {
        fn new(key: &GenericArray<u8, U32>, iv: &GenericArray<u8, U16>) -> Self;
    }
    pub trait StreamCipher {
        fn apply_keystream(&mut self, buf: &mut [u8]);
    }
    pub trait StreamCipherSeek {
        fn seek(&mut self, pos: u64);
    }
}

use cipher::{BlockEncrypt, KeyInit, KeyIvInit, StreamCipher, StreamCipherSeek};
use generic_array::{
    typenum::{U16, U32},
    GenericArray,
};

#[derive(Clone)]
pub struct Ctr128BE<C> {
    pub c: C,
    pub iv: u128,
    pub pos: u64,
}

impl<C: BlockEncrypt> Ctr128BE<C> {
    /// model extension: loop-free constructor
    pub fn model_new(c: C, iv: u128) -> Self {
        Self { c, iv, pos: 0 }
    }
    /// model extension: keystream byte at absolute stream position `p`
    #[inline]
    pub fn ks_byte(&self, p: u64) -> u8 {
        let blk = self.c.enc(self.iv.wrapping_add(u128::from(p / 16)));
        (blk >> (8 * (15 - (p % 16)))) as u8
    }
}

impl<C: BlockEncrypt + KeyInit> KeyIvInit for Ctr128BE<C> {
    fn new(key: &GenericArray<u8, U32>, iv: &GenericArray<u8, U16>) -> Self {
        let mut b = [0u8; 16];
        b.copy_from_slice(iv.as_slice());
        Self {
            c: C::new(key),
            iv: u128::from_be_bytes(b),
            pos: 0,
        }
    }
}

impl<C: BlockEncrypt> StreamCipher for Ctr128BE<C> {
    fn apply_keystream(&mut self, buf: &mut [u8]) {
        let mut i = 0;
        while i < buf.len() {
            buf[i] ^= self.ks_byte(self.pos);
            self.pos += 1;
            i += 1;
        }
    }
}

impl<C: BlockEncrypt> StreamCipherSeek for Ctr128BE<C> {
    fn seek(&mut self, pos: u64) {
        self.pos = pos;
    }
}
