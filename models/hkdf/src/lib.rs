//! Verification model of `hkdf` 0.12. NOT a KDF: `okm[i] = prk[i % 32] ^ info[i % len(info)] ^ i`
//! with `prk[j] = xor of ikm bytes at positions j mod 32, xor salt likewise`. Output depends on
//! every byte of salt, ikm and info and on their order modulo 32 — what is needed to decide *which
//! inputs, which info string* reach the derivation.
#![no_std]
use core::marker::PhantomData;

#[derive(Debug, Clone, Copy, PartialEq, Eq)]
pub struct InvalidLength;
impl core::fmt::Display for InvalidLength {
    fn fmt(&self, _f: &mut core::fmt::Formatter<'_>) -> core::fmt::Result {
        Ok(())
    }
}

#[derive(Clone)]
pub struct Hkdf<H> {
    pub prk: [u8; 32],
    _p: PhantomData<H>,
}

impl<H> Hkdf<H> {
    pub fn new(salt: Option<&[u8]>, ikm: &[u8]) -> Self {
        let mut prk = [0u8; 32];
        let mut i = 0;
        while i < ikm.len() {
            prk[i % 32] ^= ikm[i].rotate_left((i / 32) as u32 % 8);
            i += 1;
        }
        if let Some(s) = salt {
            let mut j = 0;
            while j < s.len() {
                prk[j % 32] ^= s[j].rotate_left(3);
                j += 1;
            }
        }
        Self { prk, _p: PhantomData }
    }
    pub fn expand(&self, info: &[u8], okm: &mut [u8]) -> Result<(), InvalidLength> {
        if okm.len() > 255 * 32 {
            return Err(InvalidLength);
        }
        let mut i = 0;
        while i < okm.len() {
            let inf = if info.is_empty() { 0 } else { info[i % info.len()] };
            okm[i] = self.prk[i % 32] ^ inf ^ (i as u8);
            i += 1;
        }
        Ok(())
    }
    /// model extension: the derivation as a pure function (for harness-side references)
    pub fn model_okm(ikm: &[u8; 32], info: &[u8], i: usize) -> u8 {
        let inf = if info.is_empty() { 0 } else { info[i % info.len()] };
        ikm[i % 32] ^ inf ^ (i as u8)
    }
}
