//! Verification model of `rand_chacha` 0.9. NOT ChaCha: byte `p` of the output stream is
//! `seed[p % 32] ^ (0x9D * (p / 32))` — a deterministic function of the seed whose first 32 bytes
//! are the seed itself (so distinct seeds give distinct keys), enough to decide *where secrets
//! come from*.
#![no_std]
use rand::{CryptoRng, RngCore, SeedableRng};

#[derive(Clone)]
pub struct ChaChaRng {
    pub seed: [u8; 32],
    pub pos: u64,
}
pub type ChaCha20Rng = ChaChaRng;
pub type ChaCha8Rng = ChaChaRng;

impl ChaChaRng {
    #[inline]
    pub fn byte_at(seed: &[u8; 32], p: u64) -> u8 {
        seed[(p % 32) as usize] ^ ((p / 32) as u8).wrapping_mul(0x9D)
    }
}

impl RngCore for ChaChaRng {
    fn next_u32(&mut self) -> u32 {
        let mut b = [0u8; 4];
        self.fill_bytes(&mut b);
        u32::from_le_bytes(b)
    }
    fn next_u64(&mut self) -> u64 {
        let mut b = [0u8; 8];
        self.fill_bytes(&mut b);
        u64::from_le_bytes(b)
    }
    fn fill_bytes(&mut self, dst: &mut [u8]) {
        let mut i = 0;
        while i < dst.len() {
            dst[i] = Self::byte_at(&self.seed, self.pos);
            self.pos += 1;
            i += 1;
        }
    }
}
impl CryptoRng for ChaChaRng {}

impl SeedableRng for ChaChaRng {
    type Seed = [u8; 32];
    fn from_seed(seed: [u8; 32]) -> Self {
        unsafe { rand::ghost::FIXED_SEEDS += 1 };
        Self { seed, pos: 0 }
    }
    fn model_from_block(block: [u8; 32]) -> Self {
        Self { seed: block, pos: 0 }
    }
}
