//! Verification model of `brotli` 7.0.0 — a **data-free contract model**.
//!
//! `BrotliDecompressStream` is modelled by its interface contract only: in one call the decoder
//! consumes a nondeterministic number `c <= available_in` of input bytes, decodes a
//! nondeterministic amount of new output (only when it consumed input), may meet the end-of-stream
//! marker, and delivers `min(pending, available_out)` bytes. It returns
//!   * `NeedsMoreOutput` iff decoded output is still pending (then `available_out == 0`),
//!   * `ResultSuccess`   iff the end marker was met and all output was delivered,
//!   * `NeedsMoreInput`  otherwise, and then it has consumed *all* of `available_in`,
//!   * `ResultFailure`   nondeterministically (corrupt input), sticky.
//! Every behaviour of the real decoder is a behaviour of this model (over-approximation), so a
//! "holds" verdict transfers to real brotli; a counterexample has to be confirmed natively with
//! the real crate before it is reported. Output bytes are never written (data-free).
//!
//! Ghost fields (`pending_out`, `saw_end`, `failed`, totals) are public so harnesses can state
//! properties such as "no decoder-pending output is ever dropped".
#![allow(non_snake_case, clippy::too_many_arguments)]

use std::io::{self, Read, Write};
use std::marker::PhantomData;

pub mod writer {
    #[derive(Default, Clone, Copy)]
    pub struct StandardAlloc;
}
pub use writer::StandardAlloc;

#[derive(PartialEq, Eq, Clone, Copy, Debug)]
pub enum BrotliResult {
    ResultSuccess,
    NeedsMoreInput,
    NeedsMoreOutput,
    ResultFailure,
}

/// Upper bound of the output the model decoder may hold pending (ghost). Any positive bound
/// exercises every branch of the callers; stated in the evidence.
pub const MODEL_MAX_PENDING: usize = 64;

pub struct BrotliState<A, B, C> {
    /// ghost: decoded output not yet delivered to the caller
    pub pending_out: usize,
    /// ghost: end-of-stream marker met
    pub saw_end: bool,
    /// ghost: decoder failed (sticky)
    pub failed: bool,
    /// ghost: total input consumed / output delivered by this state
    pub total_in: usize,
    pub total_out: usize,
    /// ghost: harness switch — when false the decoder never reports corrupt data
    pub may_fail: bool,
    _p: PhantomData<(A, B, C)>,
}

impl<A, B, C> BrotliState<A, B, C> {
    pub fn new(_a: A, _b: B, _c: C) -> Self {
        Self {
            pending_out: 0,
            saw_end: false,
            failed: false,
            total_in: 0,
            total_out: 0,
            may_fail: true,
            _p: PhantomData,
        }
    }
}

#[cfg(kani)]
#[inline(never)]
fn nd_usize() -> usize {
    kani::any()
}
#[cfg(kani)]
#[inline(never)]
fn nd_bool() -> bool {
    kani::any()
}
#[cfg(kani)]
#[inline(always)]
fn assume(c: bool) {
    kani::assume(c)
}
#[cfg(not(kani))]
fn nd_usize() -> usize {
    0
}
#[cfg(not(kani))]
fn nd_bool() -> bool {
    false
}
#[cfg(not(kani))]
fn assume(_c: bool) {}

pub fn BrotliDecompressStream<A, B, C>(
    available_in: &mut usize,
    input_offset: &mut usize,
    _xinput: &[u8],
    available_out: &mut usize,
    output_offset: &mut usize,
    _output: &mut [u8],
    total_out: &mut usize,
    s: &mut BrotliState<A, B, C>,
) -> BrotliResult {
    if s.failed {
        return BrotliResult::ResultFailure;
    }
    if s.may_fail && nd_bool() {
        s.failed = true;
        return BrotliResult::ResultFailure;
    }
    let avail0 = *available_in;
    // input consumed by this call
    let c = nd_usize();
    assume(c <= avail0);
    if s.saw_end {
        assume(c == 0);
    }
    // output newly decoded by this call (only from consumed input)
    let p = nd_usize();
    assume(p <= MODEL_MAX_PENDING - s.pending_out);
    if c == 0 {
        assume(p == 0);
    }
    s.pending_out += p;
    // end-of-stream marker inside the consumed bytes?
    if c > 0 && nd_bool() {
        s.saw_end = true;
    }
    // deliver
    let d = core::cmp::min(s.pending_out, *available_out);
    s.pending_out -= d;
    *available_out -= d;
    *output_offset += d;
    *total_out += d;
    *available_in -= c;
    *input_offset += c;
    s.total_in += c;
    s.total_out += d;
    unsafe { GHOST_CONSUMED += c };
    if s.pending_out > 0 {
        // here *available_out == 0
        return BrotliResult::NeedsMoreOutput;
    }
    if s.saw_end {
        unsafe { GHOST_SUCCESSES += 1 };
        return BrotliResult::ResultSuccess;
    }
    // a decoder that asks for more input has consumed all it was given
    assume(c == avail0);
    BrotliResult::NeedsMoreInput
}

/// ghost totals over ALL decoder states of a harness run (a reader replaces its state after the
/// end of each stream): input bytes consumed, streams ended
pub static mut GHOST_CONSUMED: usize = 0;
pub static mut GHOST_SUCCESSES: usize = 0;

/// ghost switch: when set the model `Decompressor` returns everything asked for (bulk skip in
/// `seek`); otherwise any count `<=` the buffer length
pub static mut DEC_FULL: bool = false;

/// Position-only model of `brotli::Decompressor`: returns a nondeterministic count, never writes
/// data. `reads` counts calls (ghost).
pub struct Decompressor<R: Read> {
    inner: R,
    pub reads: usize,
    pub produced: u64,
}

impl<R: Read> Decompressor<R> {
    pub fn new(r: R, _buffer_size: usize) -> Self {
        Self {
            inner: r,
            reads: 0,
            produced: 0,
        }
    }
    pub fn into_inner(self) -> R {
        self.inner
    }
    pub fn get_ref(&self) -> &R {
        &self.inner
    }
    pub fn get_mut(&mut self) -> &mut R {
        &mut self.inner
    }
}

impl<R: Read> Read for Decompressor<R> {
    fn read(&mut self, buf: &mut [u8]) -> io::Result<usize> {
        self.reads += 1;
        let n = if unsafe { DEC_FULL } { buf.len() } else { nd_usize() };
        assume(n <= buf.len());
        self.produced += n as u64;
        Ok(n)
    }
}

/// Position-only model of `brotli::CompressorWriter`: accepts the whole buffer (like the real
/// one, which loops internally), forwards a nondeterministic number of "compressed" bytes to the
/// inner writer, `flush` forwards everything still held and flushes the inner writer.
pub struct CompressorWriter<W: Write> {
    inner: W,
    /// ghost: uncompressed bytes accepted
    pub accepted: u64,
    /// ghost: accepted bytes not yet represented in what was forwarded
    pub held: u64,
    /// ghost: number of flush calls that reached the inner writer
    pub flushes: usize,
    pub level: u32,
    pub lgwin: u32,
}

const ZERO: [u8; 4] = [0u8; 4];
/// ghost switch: when false (default) the model compressor forwards NO bytes to the inner writer
/// (pure position/flush model); when true each call may forward a fixed 4-byte piece
pub static mut COMP_EMIT: bool = false;

impl<W: Write> CompressorWriter<W> {
    pub fn new(w: W, _buffer_size: usize, q: u32, lgwin: u32) -> Self {
        Self {
            inner: w,
            accepted: 0,
            held: 0,
            flushes: 0,
            level: q,
            lgwin,
        }
    }
    fn emit(&mut self) -> io::Result<()> {
        // nothing or a fixed-size piece: the *count* stays a constant for the symbolic executor
        // (a symbolic count would drag the u32 conversion error path of WriterWithCount — a boxed
        // `dyn Error` created and dropped — into every path)
        if unsafe { COMP_EMIT } && nd_bool() {
            self.inner.write_all(&ZERO)
        } else {
            Ok(())
        }
    }
    pub fn into_inner(mut self) -> W {
        // the real one finishes the stream (emits the last meta-block) before giving back `w`
        // (an io::Error is forgotten, never dropped: its drop glue is what makes symbolic
        //  execution of error paths explode)
        if let Err(e) = self.emit() {
            core::mem::forget(e);
        }
        self.held = 0;
        self.inner
    }
    pub fn get_ref(&self) -> &W {
        &self.inner
    }
    pub fn get_mut(&mut self) -> &mut W {
        &mut self.inner
    }
}

impl<W: Write> Write for CompressorWriter<W> {
    fn write(&mut self, buf: &[u8]) -> io::Result<usize> {
        self.accepted += buf.len() as u64;
        self.held += buf.len() as u64;
        if nd_bool() {
            self.emit()?;
        }
        Ok(buf.len())
    }
    fn flush(&mut self) -> io::Result<()> {
        self.emit()?;
        self.held = 0;
        self.flushes += 1;
        self.inner.flush()
    }
}
