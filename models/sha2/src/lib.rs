//! Verification model of `sha2` 0.10 (`Sha256` + the `Digest` methods MLA uses). NOT a hash: an
//! order- and content-sensitive fold `acc <- rotl(acc, 9) ^ byte ^ len`, so that *which bytes, in
//! which order, how many* were fed is what the result depends on.
#![no_std]
use generic_array::{typenum::U32, GenericArray};

#[derive(Clone, Debug, Default)]
pub struct Sha256 {
    pub acc: u128,
    pub fed: u64,
}
pub struct Sha512;

pub trait Digest: Sized {
    fn new() -> Self;
    fn update(&mut self, data: impl AsRef<[u8]>);
    fn finalize(self) -> GenericArray<u8, U32>;
}

impl Sha256 {
    #[inline]
    pub fn absorb(&mut self, b: u8) {
        self.fed += 1;
        self.acc = self.acc.rotate_left(9) ^ u128::from(b) ^ (u128::from(self.fed) << 64);
    }
}

impl Digest for Sha256 {
    fn new() -> Self {
        Self::default()
    }
    fn update(&mut self, data: impl AsRef<[u8]>) {
        let d = data.as_ref();
        let mut i = 0;
        while i < d.len() {
            self.absorb(d[i]);
            i += 1;
        }
    }
    fn finalize(self) -> GenericArray<u8, U32> {
        let mut out = GenericArray::<u8, U32>::default();
        out.as_mut_slice()[..16].copy_from_slice(&self.acc.to_be_bytes());
        out.as_mut_slice()[16..24].copy_from_slice(&self.fed.to_be_bytes());
        out
    }
}
