//! Verification model of `aes` 0.8.4. NOT a cipher: `E_k(b)` is a cheap keyed mixing function
//! on `u128` that depends on every key bit and every input bit; it is what lets a harness tell
//! *which* key/nonce/counter reached the block function, nothing more.
#![no_std]
use ctr::cipher::{BlockEncrypt, KeyInit};
use generic_array::{
    typenum::{U16, U32},
    GenericArray,
};

#[derive(Clone)]
pub struct Aes256 {
    pub k0: u128,
    pub k1: u128,
}

impl Aes256 {
    /// model extension: loop-free constructor from raw key bytes
    pub fn model_new(key: &[u8; 32]) -> Self {
        let mut a = [0u8; 16];
        let mut b = [0u8; 16];
        a.copy_from_slice(&key[..16]);
        b.copy_from_slice(&key[16..]);
        Self {
            k0: u128::from_be_bytes(a),
            k1: u128::from_be_bytes(b),
        }
    }
}

impl KeyInit for Aes256 {
    fn new(key: &GenericArray<u8, U32>) -> Self {
        let mut k = [0u8; 32];
        k.copy_from_slice(key.as_slice());
        Self::model_new(&k)
    }
}

impl BlockEncrypt for Aes256 {
    #[inline]
    fn enc(&self, b: u128) -> u128 {
        // GF(2)-linear mixing (xor/rotate only): cheap for the SAT back end, still depends on
        // every key bit and every input bit
        let x = b ^ self.k0;
        let y = x ^ x.rotate_left(29) ^ x.rotate_left(67);
        y ^ self.k1 ^ (y >> 64)
    }
    fn encrypt_block(&self, block: &mut GenericArray<u8, U16>) {
        let mut a = [0u8; 16];
        a.copy_from_slice(block.as_slice());
        let r = self.enc(u128::from_be_bytes(a)).to_be_bytes();
        block.as_mut_slice().copy_from_slice(&r);
    }
}
