//! Verification model of `x25519-dalek` 2.0. NOT a curve: `public(a) = a ^ MASK`,
//! `dh(a, B) = a ^ B ^ MASK` (bytewise) so that `dh(a, public(b)) == dh(b, public(a))` by
//! construction (the only algebraic fact ECIES relies on), public keys differ from secrets, and
//! every byte of both inputs reaches the shared secret.
#![no_std]
use zeroize::Zeroize;

pub const MASK: u8 = 0x5C;

#[derive(Clone, Copy, PartialEq, Eq, Debug)]
pub struct PublicKey(pub [u8; 32]);
#[derive(Clone)]
pub struct StaticSecret(pub [u8; 32]);
pub struct SharedSecret(pub [u8; 32]);

#[inline]
fn xor_mask(a: &[u8; 32], b: Option<&[u8; 32]>) -> [u8; 32] {
    let mut o = [0u8; 32];
    let mut i = 0;
    while i < 32 {
        o[i] = a[i] ^ MASK ^ match b {
            Some(b) => b[i],
            None => 0,
        };
        i += 1;
    }
    o
}

impl From<[u8; 32]> for StaticSecret {
    fn from(b: [u8; 32]) -> Self {
        Self(b)
    }
}
impl StaticSecret {
    pub fn diffie_hellman(&self, their_public: &PublicKey) -> SharedSecret {
        SharedSecret(xor_mask(&self.0, Some(&their_public.0)))
    }
    pub fn to_bytes(&self) -> [u8; 32] {
        self.0
    }
    pub fn as_bytes(&self) -> &[u8; 32] {
        &self.0
    }
}
impl From<&StaticSecret> for PublicKey {
    fn from(s: &StaticSecret) -> Self {
        Self(xor_mask(&s.0, None))
    }
}
impl From<[u8; 32]> for PublicKey {
    fn from(b: [u8; 32]) -> Self {
        Self(b)
    }
}
impl PublicKey {
    pub fn as_bytes(&self) -> &[u8; 32] {
        &self.0
    }
    pub fn to_bytes(&self) -> [u8; 32] {
        self.0
    }
}
impl SharedSecret {
    pub fn as_bytes(&self) -> &[u8; 32] {
        &self.0
    }
}
impl Zeroize for SharedSecret {
    fn zeroize(&mut self) {
        self.0 = [0u8; 32];
    }
}
