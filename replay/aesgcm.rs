// Native replay templates for the GCM core: the real incremental implementation against the
// independent `aes-gcm` crate (a dev-dependency of mla)
#![allow(dead_code, unused_imports, clippy::all)]
use super::*;
use aead::Payload;
use aes_gcm::{Aes256Gcm, aead::Aead, KeyInit as _};
use std::panic::{catch_unwind, AssertUnwindSafe};
fn v_u64(name: &str, default: u64) -> u64 {
    std::env::var(format!("VR_{name}")).ok().and_then(|s| s.parse::<u64>().ok()).unwrap_or(default)
}
fn report(r: Result<Option<String>, Box<dyn std::any::Any + Send>>) {
    match r {
        Ok(None) => println!("REPLAY-RESULT: not-reproduced real code agrees with the specification on these values"),
        Ok(Some(s)) => println!("REPLAY-RESULT: reproduced {s}"),
        Err(_) => println!("REPLAY-RESULT: reproduced real code panicked"),
    }
}
fn split_case(len: usize, c1: usize, c2: usize) -> Option<String> {
    let key: Key = core::array::from_fn(|i| (i * 7 + 1) as u8);
    let nonce: Nonce = core::array::from_fn(|i| (i * 13 + 5) as u8);
    let msg: Vec<u8> = (0..len).map(|i| (i * 31 + 3) as u8).collect();
    let reference = Aes256Gcm::new_from_slice(&key).unwrap().encrypt((&nonce).into(), Payload { msg: &msg, aad: b"" }).unwrap();
    let mut buf = msg.clone();
    let mut c = AesGcm256::new(&key, &nonce, b"").unwrap();
    let (a, rest) = buf.split_at_mut(c1);
    let (b, d) = rest.split_at_mut(c2 - c1);
    c.encrypt(a);
    c.encrypt(b);
    c.encrypt(d);
    let tag = c.into_tag();
    if buf[..] != reference[..len] {
        return Some(format!("ciphertext of a {len}-byte message encrypted in pieces [0,{c1}) [{c1},{c2}) [{c2},{len}) differs from standard AES-256-GCM"));
    }
    if tag[..] != reference[len..] {
        return Some(format!("tag of a {len}-byte message encrypted in pieces cut at {c1},{c2} differs from standard AES-256-GCM"));
    }
    let mut dd = AesGcm256::new(&key, &nonce, b"").unwrap();
    let t2 = dd.decrypt(&mut buf);
    if t2[..] != reference[len..] || buf != msg {
        return Some("decrypt does not recompute the tag / restore the message".to_string());
    }
    None
}
#[test]
fn gcm_split() {
    let len = (v_u64("len", 24) as usize).min(4096);
    let c2 = (v_u64("c2", 20) as usize).min(len);
    let c1 = (v_u64("c1", 5) as usize).min(c2);
    report(catch_unwind(|| split_case(len, c1, c2)));
}
#[test]
fn gcm_vectors() {
    report(catch_unwind(|| {
        for (l, a, b) in [(0usize, 0usize, 0usize), (1, 0, 1), (16, 7, 9), (17, 1, 16), (24, 5, 20), (100, 33, 34)] {
            if let Some(s) = split_case(l, a, b) {
                return Some(s);
            }
        }
        None
    }));
}
