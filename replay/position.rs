// Native replay template for the position layer
#![allow(dead_code, unused_imports, clippy::all)]
use super::*;
use crate::layers::raw::RawLayerWriter;
use std::io::Write;
use std::panic::{catch_unwind, AssertUnwindSafe};
/// sink accepting one byte per write
struct OneByte(Vec<u8>);
impl Write for OneByte {
    fn write(&mut self, buf: &[u8]) -> std::io::Result<usize> {
        if buf.is_empty() {
            return Ok(0);
        }
        self.0.push(buf[0]);
        Ok(1)
    }
    fn flush(&mut self) -> std::io::Result<()> {
        Ok(())
    }
}
#[test]
fn pos_write() {
    let r = catch_unwind(AssertUnwindSafe(|| -> Option<String> {
        let mut w = PositionLayerWriter::new(Box::new(RawLayerWriter::new(OneByte(Vec::new()))));
        let data = [1u8, 2, 3, 4, 5, 6, 7, 8];
        let k = w.write(&data).unwrap();
        if w.position() != k as u64 {
            return Some(format!("inner writer accepted {k} of 8 bytes, position layer reports {}", w.position()));
        }
        w.write_all(&data).unwrap();
        if w.position() != (k + 8) as u64 {
            return Some(format!("after write_all through a 1-byte sink the position is {}", w.position()));
        }
        None
    }));
    match r {
        Ok(None) => println!("REPLAY-RESULT: not-reproduced real code agrees with the specification on these values"),
        Ok(Some(s)) => println!("REPLAY-RESULT: reproduced {s}"),
        Err(_) => println!("REPLAY-RESULT: reproduced real code panicked"),
    }
}
