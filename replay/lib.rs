// Native replay templates for mla/src/lib.rs kernels (block dump, footer arithmetic, per-file reader)
#![allow(dead_code, unused_imports, clippy::all)]
use super::*;
use std::io::{Cursor, Empty, Read, Seek, SeekFrom, Write};
use std::panic::{catch_unwind, AssertUnwindSafe};

fn v_u64(name: &str, default: u64) -> u64 {
    std::env::var(format!("VR_{name}")).ok().and_then(|s| s.parse::<u64>().ok()).unwrap_or(default)
}
fn report(r: Result<Option<String>, Box<dyn std::any::Any + Send>>) {
    match r {
        Ok(None) => println!("REPLAY-RESULT: not-reproduced real code agrees with the specification on these values"),
        Ok(Some(s)) => println!("REPLAY-RESULT: reproduced {s}"),
        Err(p) => {
            let msg = p.downcast_ref::<String>().cloned().or_else(|| p.downcast_ref::<&str>().map(|s| s.to_string())).unwrap_or_default();
            println!("REPLAY-RESULT: reproduced real code panicked: {msg}")
        }
    }
}

#[test]
fn lib_consts() {
    let b = v_u64("b", 0) as u8;
    let r = catch_unwind(|| -> Option<String> {
        if MLA_MAGIC != b"MLA" || MLA_FORMAT_VERSION != 1 || FILENAME_MAX_SIZE != 65536 {
            return Some("magic / version / name limit differ from FORMAT.md".to_string());
        }
        if Layers::ENCRYPT.bits() != 1 || Layers::COMPRESS.bits() != 2 {
            return Some("layer bits differ from FORMAT.md".to_string());
        }
        let documented = matches!(b, 0x00 | 0x01 | 0xFE | 0xFF);
        match ArchiveFileBlockType::try_from(b).map(|t| t as u8) {
            Ok(t) if documented && t == b => None,
            Err(_) if !documented => None,
            other => Some(format!("block type byte {b:#x} parsed as {:?}", other.ok())),
        }
    });
    report(r);
}

#[test]
fn lib_dump_name() {
    let len = v_u64("len", 65537) as usize;
    let id = v_u64("id", 0);
    let r = catch_unwind(|| -> Option<String> {
        let name = "a".repeat(len);
        let mut out = Vec::new();
        let mut blk: ArchiveFileBlock<Empty> = ArchiveFileBlock::FileStart { filename: name, id };
        let res = blk.dump(&mut out);
        if len > 65536 {
            if res.is_ok() {
                return Some(format!("a {len}-byte name was accepted"));
            }
            if !out.is_empty() {
                return Some(format!("refusing a {len}-byte name left {} bytes in the archive", out.len()));
            }
        } else {
            if res.is_err() {
                return Some(format!("a {len}-byte name was refused"));
            }
            let mut want = vec![0u8];
            want.extend_from_slice(&id.to_le_bytes());
            want.extend_from_slice(&(len as u64).to_le_bytes());
            if out.len() != 17 + len || out[..17] != want[..] {
                return Some("file start block is not type, id, length, name".to_string());
            }
        }
        // and through the writer API: a refused start leaves a readable archive
        let mut cfg = crate::config::ArchiveWriterConfig::new();
        cfg.set_layers(Layers::EMPTY);
        let mut w = ArchiveWriter::from_config(Vec::new(), cfg).unwrap();
        let bad = "b".repeat(65537);
        let _ = w.start_file(&bad);
        w.add_file("ok", 3, &b"abc"[..]).unwrap();
        w.finalize().unwrap();
        let bytes = w.into_raw();
        match ArchiveReader::new(Cursor::new(bytes)) {
            Ok(mut rd) => {
                let names: Vec<String> = rd.list_files().unwrap().cloned().collect();
                if names != vec!["ok".to_string()] {
                    return Some(format!("after a refused over-long name the archive lists {names:?}"));
                }
                let mut f = rd.get_file("ok".to_string()).unwrap().unwrap();
                let mut c = Vec::new();
                if f.data.read_to_end(&mut c).is_err() || c != b"abc" {
                    return Some("after a refused over-long name the next file cannot be read back".to_string());
                }
                None
            }
            Err(e) => Some(format!("after a refused over-long name the finalized archive cannot be opened: {e:?}")),
        }
    });
    report(r);
}

#[test]
fn lib_dump_content() {
    let length = v_u64("length", 4);
    let m = v_u64("m", 2);
    let id = v_u64("id", 0);
    let r = catch_unwind(|| -> Option<String> {
        let src = vec![7u8; m as usize];
        let mut out = Vec::new();
        let mut blk = ArchiveFileBlock::FileContent { length, data: Some(&src[..]), id };
        let res = blk.dump(&mut out);
        if res.is_ok() && m < length {
            return Some(format!("a source of {m} bytes announced as {length} was appended with success ({} bytes written)", out.len()));
        }
        if res.is_err() && m >= length {
            return Some(format!("a source of {m} bytes announced as {length} was refused"));
        }
        if res.is_ok() && out.len() as u64 != 17 + length {
            return Some(format!("content block of {} bytes for an announced length {length}", out.len()));
        }
        None
    });
    report(r);
}

#[test]
fn lib_dump_eof() {
    let id = v_u64("id", 0);
    let r = catch_unwind(|| -> Option<String> {
        let hash = [0x5Au8; 32];
        let mut out = Vec::new();
        let mut e: ArchiveFileBlock<Empty> = ArchiveFileBlock::EndOfFile { id, hash };
        e.dump(&mut out).unwrap();
        if out.len() != 41 || out[0] != 0xFF || out[1..9] != id.to_le_bytes() || out[9..] != hash {
            return Some("end-of-file block is not 0xFF, id, sha256".to_string());
        }
        let mut out2 = Vec::new();
        let mut d: ArchiveFileBlock<Empty> = ArchiveFileBlock::EndOfArchiveData;
        d.dump(&mut out2).unwrap();
        if out2 != [0xFE] {
            return Some("end-of-archive-data marker is not 0xFE".to_string());
        }
        None
    });
    report(r);
}

#[test]
fn lib_footer() {
    let n = v_u64("n", 0).min(1 << 20) as usize;
    let lenfield = v_u64("lenfield", 0) as u32;
    let r = catch_unwind(|| -> Option<String> {
        let mut bytes = vec![0u8; n];
        if n >= 4 {
            bytes[n - 4..].copy_from_slice(&lenfield.to_le_bytes());
        }
        let _ = ArchiveFooter::deserialize_from(Cursor::new(bytes));
        None
    });
    report(r);
}

/// per-file reader: (1) a real archive with interleaved files read with several buffer sizes;
/// (2) the solver's scenario — reader state and the next two block headers as drawn — rebuilt over
/// handcrafted block bytes parsed by the REAL `ArchiveFileBlock::from`
#[test]
fn lib_b2f() {
    let r = catch_unwind(|| -> Option<String> {
        let mut cfg = crate::config::ArchiveWriterConfig::new();
        cfg.set_layers(Layers::EMPTY);
        let mut w = ArchiveWriter::from_config(Vec::new(), cfg).unwrap();
        let a = w.start_file("a").unwrap();
        let b = w.start_file("b").unwrap();
        let da: Vec<u8> = (0..40u8).collect();
        let db: Vec<u8> = (100..130u8).collect();
        w.append_file_content(a, 10, &da[..10]).unwrap();
        w.append_file_content(b, 7, &db[..7]).unwrap();
        w.append_file_content(a, 30, &da[10..]).unwrap();
        w.end_file(a).unwrap();
        w.append_file_content(b, 23, &db[7..]).unwrap();
        w.end_file(b).unwrap();
        w.finalize().unwrap();
        let bytes = w.into_raw();
        let mut rd = ArchiveReader::new(Cursor::new(bytes)).unwrap();
        for (name, want) in [("b", &db), ("a", &da), ("b", &db)] {
            // blen 0 stands for: a read with an EMPTY buffer before every 3-byte read (it must return
            // Ok(0) and change nothing: same bytes afterwards, at every block edge as well)
            for blen in [1usize, 3, 8, 64, 0] {
                let mut f = rd.get_file(name.to_string()).unwrap().unwrap();
                let mut out = Vec::new();
                let mut buf = vec![0u8; if blen == 0 { 3 } else { blen }];
                loop {
                    if blen == 0 {
                        match f.data.read(&mut []) {
                            Ok(0) => {}
                            other => return Some(format!("a read with an empty buffer on file {name} after {} bytes returned {other:?}", out.len())),
                        }
                    }
                    match f.data.read(&mut buf) {
                        Ok(0) => break,
                        Ok(k) => out.extend_from_slice(&buf[..k]),
                        Err(e) => return Some(format!("reading {name} with a {blen}-byte buffer failed: {e}")),
                    }
                }
                if &out != want {
                    return Some(format!("file {name} read with a {blen}-byte buffer (0 = empty-buffer reads interleaved with 3-byte reads) gave {} bytes, expected {}", out.len(), want.len()));
                }
            }
        }
        // ---- (2) the solver's scenario
        let my = v_u64("my", 1);
        let nruns = (v_u64("nruns", 1) as usize).clamp(1, 3);
        let cur = (v_u64("cur", 0) as usize).min(nruns - 1);
        let blen = (v_u64("blen", 4) as usize).min(8);
        let mut stream: Vec<u8> = Vec::new();
        let mut starts = Vec::new();
        for i in 0..2 {
            starts.push(stream.len() as u64);
            let (k, id, len) = (v_u64(&format!("k{i}"), 4), v_u64(&format!("id{i}"), 0), v_u64(&format!("len{i}"), 0));
            match k {
                1 => {
                    stream.push(0x01);
                    stream.extend_from_slice(&id.to_le_bytes());
                    stream.extend_from_slice(&len.to_le_bytes());
                    stream.extend_from_slice(&[9u8; 16][..(len.min(16)) as usize]);
                }
                2 => {
                    stream.push(0xFF);
                    stream.extend_from_slice(&id.to_le_bytes());
                    stream.extend_from_slice(&[0u8; 32]);
                }
                3 => stream.push(0xFE),
                _ => stream.push(0x77),
            }
        }
        // every run offset points at the second block (where a run change must continue)
        let offs = vec![starts[1]; nruns];
        let mut src = Cursor::new(stream);
        let state = match v_u64("st", 1) % 3 {
            0 => BlocksToFileReaderState::InFile((v_u64("rem", 1).max(1)).min(1 << 20) as usize),
            1 => BlocksToFileReaderState::Ready,
            _ => BlocksToFileReaderState::Finish,
        };
        let mut rd = BlocksToFileReader { src: &mut src, state, id: my, current_offset: cur, offsets: &offs[..] };
        let mut buf = [0u8; 8];
        let _ = rd.read(&mut buf[..blen]); // any result but a panic is acceptable here
        None
    });
    report(r);
}

#[test]
fn lib_hash() {
    use crate::crypto::hash::HashWrapperReader;
    use sha2::{Digest, Sha256};
    struct One<'a>(&'a [u8], usize);
    impl Read for One<'_> {
        fn read(&mut self, buf: &mut [u8]) -> std::io::Result<usize> {
            if self.1 >= self.0.len() || buf.is_empty() {
                return Ok(0);
            }
            buf[0] = self.0[self.1];
            self.1 += 1;
            Ok(1)
        }
    }
    let r = catch_unwind(|| -> Option<String> {
        let data: Vec<u8> = (0..100u8).collect();
        let mut h = Sha256::default();
        {
            let mut w = HashWrapperReader::new(One(&data, 0), &mut h);
            let mut buf = [0u8; 64];
            let mut out = Vec::new();
            loop {
                match w.read(&mut buf) {
                    Ok(0) => break,
                    Ok(n) => out.extend_from_slice(&buf[..n]),
                    Err(_) => return Some("read failed".to_string()),
                }
            }
            if out != data {
                return Some("bytes altered by the hashing reader".to_string());
            }
        }
        if h.finalize().as_slice() != Sha256::digest(&data).as_slice() {
            return Some("hash accumulated while copying through a 1-byte source differs from SHA-256 of the bytes returned".to_string());
        }
        None
    });
    report(r);
}

#[test]
fn lib_writer_refused() {
    let r = catch_unwind(|| -> Option<String> {
        let mut cfg = crate::config::ArchiveWriterConfig::new();
        cfg.set_layers(Layers::EMPTY);
        let mut w = ArchiveWriter::from_config(Vec::new(), cfg).unwrap();
        let id = w.start_file("a").unwrap();
        w.append_file_content(id, 2, &b"xy"[..]).unwrap();
        if w.finalize().is_ok() {
            return Some("finalize accepted while a file is open".to_string());
        }
        // the sequence must be able to continue
        if let Err(e) = w.append_file_content(id, 1, &b"z"[..]) {
            return Some(format!("append after a refused finalize: {e:?}"));
        }
        if let Err(e) = w.end_file(id) {
            return Some(format!("end_file after a refused finalize: {e:?}"));
        }
        if let Err(e) = w.finalize() {
            return Some(format!("finalize after closing the file: {e:?}"));
        }
        if w.append_file_content(id, 1, &b"z"[..]).is_ok() || w.start_file("b").is_ok() || w.finalize().is_ok() {
            return Some("a call after finalization was accepted".to_string());
        }
        let bytes = w.into_raw();
        let mut rd = ArchiveReader::new(Cursor::new(bytes)).ok()?;
        let mut f = rd.get_file("a".to_string()).ok()??;
        let mut c = Vec::new();
        f.data.read_to_end(&mut c).ok()?;
        if c != b"xyz" {
            return Some("archive built around a refused finalize does not read back".to_string());
        }
        None
    });
    report(r);
}

#[test]
fn lib_writer_unknown_id() {
    let id = v_u64("id", 5);
    let size = v_u64("size", 0);
    let r = catch_unwind(|| -> Option<String> {
        let mut cfg = crate::config::ArchiveWriterConfig::new();
        cfg.set_layers(Layers::EMPTY);
        // (a) nothing was ever opened; (b) file 0 was opened and ended, then an unrelated id is used
        for ended_first in [false, true] {
            let mut cfg = crate::config::ArchiveWriterConfig::new();
            cfg.set_layers(Layers::EMPTY);
            let mut w = ArchiveWriter::from_config(Vec::new(), cfg).unwrap();
            if ended_first {
                let i0 = w.start_file("a").unwrap();
                w.append_file_content(i0, 2, &b"xy"[..]).unwrap();
                w.end_file(i0).unwrap();
            }
            let probe = if ended_first { id.max(1) } else { id };
            let before = w.dest.position();
            let data = vec![7u8; size.min(64) as usize];
            if w.append_file_content(probe, size.min(64), &data[..]).is_ok() {
                return Some(format!("append_file_content(id {probe}, size {}) accepted although that id is not an open file", size.min(64)));
            }
            if w.end_file(probe).is_ok() {
                return Some(format!("end_file({probe}) accepted although that id is not an open file"));
            }
            if w.dest.position() != before {
                return Some("refused calls wrote to the archive".to_string());
            }
        }
        let _ = cfg;
        None
    });
    report(r);
}

#[test]
fn lib_writer_flush() {
    let which = v_u64("which", 0);
    let r = catch_unwind(|| -> Option<String> {
        struct CountFlush(std::rc::Rc<std::cell::Cell<u32>>, Vec<u8>);
        impl Write for CountFlush {
            fn write(&mut self, b: &[u8]) -> std::io::Result<usize> {
                self.1.extend_from_slice(b);
                Ok(b.len())
            }
            fn flush(&mut self) -> std::io::Result<()> {
                self.0.set(self.0.get() + 1);
                Ok(())
            }
        }
        let n = std::rc::Rc::new(std::cell::Cell::new(0u32));
        let mut cfg = crate::config::ArchiveWriterConfig::new();
        cfg.set_layers(Layers::EMPTY);
        let mut w = ArchiveWriter::from_config(CountFlush(n.clone(), Vec::new()), cfg).unwrap();
        w.add_file("a", 3, &b"abc"[..]).unwrap();
        if which == 1 {
            w.start_file("b").unwrap();
        } else if which == 2 {
            w.finalize().unwrap();
        }
        let before = n.get();
        if let Err(e) = w.flush() {
            return Some(format!("flush failed: {e:?}"));
        }
        if n.get() == before {
            return Some(format!("ArchiveWriter::flush() (scenario {which}: 0 = no file in progress, 1 = a file open, 2 = finalized) returned without flushing the destination"));
        }
        None
    });
    report(r);
}

#[test]
fn lib_from_name() {
    let r = catch_unwind(|| -> Option<String> {
        {
            let mut empty: &[u8] = &[];
            match ArchiveFileBlock::from(&mut empty) {
                Err(_) => {}
                Ok(b) => return Some(format!("an exhausted source was parsed as a block (type byte {:?}): a cut on a block boundary looks like a complete archive", match b { ArchiveFileBlock::EndOfArchiveData => 0xFEu8, ArchiveFileBlock::FileStart { .. } => 0, ArchiveFileBlock::FileContent { .. } => 1, ArchiveFileBlock::EndOfFile { .. } => 0xFF })),
            }
        }
        for (name_len, present) in [(3usize, 3usize), (3, 2), (3, 0), (1, 0), (0, 0), (40, 39), (40, 40)] {
            let mut hdr = vec![0u8];
            hdr.extend_from_slice(&7u64.to_le_bytes());
            hdr.extend_from_slice(&(name_len as u64).to_le_bytes());
            hdr.extend(std::iter::repeat(b'n').take(present));
            let mut src: &[u8] = &hdr;
            match ArchiveFileBlock::from(&mut src) {
                Ok(ArchiveFileBlock::FileStart { filename, .. }) if present >= name_len && filename.len() == name_len => {}
                Err(_) if present < name_len => {}
                Ok(ArchiveFileBlock::FileStart { filename, .. }) => {
                    return Some(format!("a file start announcing a {name_len}-byte name with only {present} bytes present was accepted with the name {filename:?}"));
                }
                other => return Some(format!("file start with name length {name_len}, {present} present: {:?}", other.is_ok())),
            }
        }
        None
    });
    report(r);
}
