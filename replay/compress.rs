// Native replay templates for the compression layer (real brotli). Appended as a `#[cfg(test)]`
// child module to a scratch copy of the REAL mla/src/layers/compress.rs.
#![allow(dead_code, unused_imports, clippy::all)]
use super::*;
use crate::layers::raw::{RawLayerFailSafeReader, RawLayerReader, RawLayerWriter};
use std::io::{Cursor, Read, Seek, SeekFrom, Write};
use std::panic::{catch_unwind, AssertUnwindSafe};

fn v_u64(name: &str, default: u64) -> u64 {
    std::env::var(format!("VR_{name}")).ok().and_then(|s| s.parse::<u64>().ok()).unwrap_or(default)
}
fn v_i64(name: &str, default: i64) -> i64 {
    std::env::var(format!("VR_{name}")).ok().and_then(|s| s.parse::<i64>().ok()).unwrap_or(default)
}
fn v_str(name: &str, default: &str) -> String {
    std::env::var(format!("VR_{name}")).unwrap_or_else(|_| default.to_string())
}
fn report(r: Result<Option<String>, Box<dyn std::any::Any + Send>>) {
    match r {
        Ok(None) => println!("REPLAY-RESULT: not-reproduced real code agrees with the specification on these values"),
        Ok(Some(s)) => println!("REPLAY-RESULT: reproduced {s}"),
        Err(p) => {
            let msg = p.downcast_ref::<String>().cloned().or_else(|| p.downcast_ref::<&str>().map(|s| s.to_string())).unwrap_or_default();
            println!("REPLAY-RESULT: reproduced real code panicked: {msg}")
        }
    }
}
const BLOCK: u64 = UNCOMPRESSED_DATA_SIZE as u64;

/// pseudo-random (incompressible) or repetitive (compressible) data
fn data_of(len: u64, entropy: u64) -> Vec<u8> {
    let mut x: u64 = 0x9E37_79B9_7F4A_7C15;
    (0..len)
        .map(|i| match entropy {
            0 => 0u8,
            1 => (i % 251) as u8,
            _ => {
                x ^= x << 13;
                x ^= x >> 7;
                x ^= x << 17;
                (x >> 24) as u8
            }
        })
        .collect()
}
fn compress_stream(data: &[u8], level: u32) -> (Vec<u8>, Vec<u32>) {
    let mut cfg = CompressionConfig::default();
    cfg.compression_level = level;
    let mut w = Box::new(CompressionLayerWriter::new(Box::new(RawLayerWriter::new(Vec::new())), &cfg));
    w.write_all(data).unwrap();
    w.finalize().unwrap();
    let sizes = w.compressed_sizes.clone();
    (w.into_raw(), sizes)
}
/// a source that hands out at most `k` bytes per read
struct Throttle<'a> {
    d: &'a [u8],
    pos: usize,
    k: usize,
}
impl Read for Throttle<'_> {
    fn read(&mut self, buf: &mut [u8]) -> std::io::Result<usize> {
        let n = buf.len().min(self.k).min(self.d.len() - self.pos);
        buf[..n].copy_from_slice(&self.d[self.pos..self.pos + n]);
        self.pos += n;
        Ok(n)
    }
}
/// everything the fail-safe reader gives before its first Ok(0)/Err, reading `rb` bytes at a time
fn failsafe_all(src: &[u8], per_read: usize, rb: usize) -> (Vec<u8>, bool) {
    let t = Throttle { d: src, pos: 0, k: per_read };
    let mut r = CompressionLayerFailSafeReader::new(Box::new(RawLayerFailSafeReader::new(t))).unwrap();
    let mut out = Vec::new();
    let mut buf = vec![0u8; rb];
    let mut ended_with_err = false;
    let mut guard = 0u64;
    loop {
        guard += 1;
        if guard > 200_000_000 {
            panic!("fail-safe read does not terminate");
        }
        match r.read(&mut buf) {
            Ok(0) => break,
            Ok(k) => out.extend_from_slice(&buf[..k]),
            Err(_) => {
                ended_with_err = true;
                break;
            }
        }
    }
    (out, ended_with_err)
}

/// fail-safe decompressor: intact multi-block streams of several entropies, throttled source,
/// small and large caller buffers, flush-then-cut. The solver's state values select the emphasis
/// (`short` -> 1-byte source; `pending` > 0 -> flush/cut) but every scenario is always run.
#[test]
fn cmp_fs() {
    let r = catch_unwind(AssertUnwindSafe(|| -> Option<String> {
        let blen = (v_u64("blen", 8) as usize).clamp(1, 8);
        // --- A/B: intact streams crossing 2 block edges, every entropy, several transfer schedules
        for entropy in [0u64, 1, 2] {
            let total = 2 * BLOCK + BLOCK / 3 + 5;
            let data = data_of(total, entropy);
            let (comp, sizes) = compress_stream(&data, 3);
            let body: u64 = sizes.iter().map(|v| u64::from(*v)).sum();
            for (per_read, rb) in [(usize::MAX, 8 * 1024 * 1024), (usize::MAX, 4096), (1usize, 4096), (7, blen), (usize::MAX, 1 << 16)] {
                if rb <= 8 && BLOCK > 1024 && entropy == 2 {
                    continue; // 8-byte reads over 9 MiB of incompressible data: too slow, covered by entropy 0/1
                }
                let (out, _err) = failsafe_all(&comp, per_read, rb);
                if out.len() as u64 != total || out != data {
                    let first_bad = out.iter().zip(data.iter()).position(|(a, b)| a != b);
                    return Some(format!(
                        "repair-side decompression of an INTACT {total}-byte stream (entropy class {entropy}, {} blocks, {body} compressed bytes) read through a source giving <= {} bytes per read with a {rb}-byte buffer recovered {} bytes (first difference {:?})",
                        sizes.len(), if per_read == usize::MAX { 0 } else { per_read }, out.len(), first_bad
                    ));
                }
            }
        }
        // --- C: flush, then cut exactly there
        for (len, entropy) in [(200_000u64, 0u64), (70_000, 1), (5, 2), (BLOCK + 17, 0)] {
            let data = data_of(len, entropy);
            let mut w = Box::new(CompressionLayerWriter::new(Box::new(RawLayerWriter::new(Vec::new())), &CompressionConfig::default()));
            w.write_all(&data).unwrap();
            w.flush().unwrap();
            let cut = w.into_raw();
            for rb in [8 * 1024 * 1024usize, 4096, blen] {
                let (out, _err) = failsafe_all(&cut, usize::MAX, rb);
                if out != data {
                    return Some(format!(
                        "{len} bytes (entropy class {entropy}) written and flushed, stream cut at the flush point ({} compressed bytes), fail-safe reader with a {rb}-byte buffer recovered {} bytes",
                        cut.len(), out.len()
                    ));
                }
            }
        }
        // --- D: after the end / after an error the reader can still be consumed without panicking
        {
            let data = data_of(100, 1);
            let (comp, _) = compress_stream(&data, 3);
            let mut r = CompressionLayerFailSafeReader::new(Box::new(RawLayerFailSafeReader::new(&comp[..]))).unwrap();
            let mut sink = Vec::new();
            let _ = r.read_to_end(&mut sink);
            let mut b = [0u8; 4];
            let _ = r.read(&mut b);
            let _ = Box::new(r).into_raw();
        }
        None
    }));
    report(r);
}
