// Native replay templates for the compression layer (real brotli). Appended as a `#[cfg(test)]`
// child module to a scratch copy of the REAL mla/src/layers/compress.rs.
#![allow(dead_code, unused_imports, clippy::all)]
use super::*;
use crate::layers::raw::{RawLayerFailSafeReader, RawLayerReader, RawLayerWriter};
use std::io::{Cursor, Read, Seek, SeekFrom, Write};
use std::panic::{catch_unwind, AssertUnwindSafe};

fn v_u64(name: &str, default: u64) -> u64 {
    std::env::var(format!("VR_{name}")).ok().and_then(|s| s.parse::<u64>().ok()).unwrap_or(default)
}
fn v_i64(name: &str, default: i64) -> i64 {
    std::env::var(format!("VR_{name}")).ok().and_then(|s| s.parse::<i64>().ok()).unwrap_or(default)
}
fn v_str(name: &str, default: &str) -> String {
    std::env::var(format!("VR_{name}")).unwrap_or_else(|_| default.to_string())
}
fn report(r: Result<Option<String>, Box<dyn std::any::Any + Send>>) {
    match r {
        Ok(None) => println!("REPLAY-RESULT: not-reproduced real code agrees with the specification on these values"),
        Ok(Some(s)) => println!("REPLAY-RESULT: reproduced {s}"),
        Err(p) => {
            let msg = p.downcast_ref::<String>().cloned().or_else(|| p.downcast_ref::<&str>().map(|s| s.to_string())).unwrap_or_default();
            println!("REPLAY-RESULT: reproduced real code panicked: {msg}")
        }
    }
}
const BLOCK: u64 = UNCOMPRESSED_DATA_SIZE as u64;

/// pseudo-random (incompressible) or repetitive (compressible) data
fn data_of(len: u64, entropy: u64) -> Vec<u8> {
    let mut x: u64 = 0x9E37_79B9_7F4A_7C15;
    (0..len)
        .map(|i| match entropy {
            0 => 0u8,
            1 => (i % 251) as u8,
            _ => {
                x ^= x << 13;
                x ^= x >> 7;
                x ^= x << 17;
                (x >> 24) as u8
            }
        })
        .collect()
}
fn compress_stream(data: &[u8], level: u32) -> (Vec<u8>, Vec<u32>) {
    let mut cfg = CompressionConfig::default();
    cfg.compression_level = level;
    let mut w = Box::new(CompressionLayerWriter::new(Box::new(RawLayerWriter::new(Vec::new())), &cfg));
    w.write_all(data).unwrap();
    w.finalize().unwrap();
    let sizes = w.compressed_sizes.clone();
    (w.into_raw(), sizes)
}
/// a source that hands out at most `k` bytes per read
struct Throttle<'a> {
    d: &'a [u8],
    pos: usize,
    k: usize,
}
impl Read for Throttle<'_> {
    fn read(&mut self, buf: &mut [u8]) -> std::io::Result<usize> {
        let n = buf.len().min(self.k).min(self.d.len() - self.pos);
        buf[..n].copy_from_slice(&self.d[self.pos..self.pos + n]);
        self.pos += n;
        Ok(n)
    }
}
/// everything the fail-safe reader gives before its first Ok(0)/Err, reading `rb` bytes at a time
fn failsafe_all(src: &[u8], per_read: usize, rb: usize) -> (Vec<u8>, bool) {
    let t = Throttle { d: src, pos: 0, k: per_read };
    let mut r = CompressionLayerFailSafeReader::new(Box::new(RawLayerFailSafeReader::new(t))).unwrap();
    let mut out = Vec::new();
    let mut buf = vec![0u8; rb];
    let mut ended_with_err = false;
    let mut guard = 0u64;
    loop {
        guard += 1;
        if guard > 200_000_000 {
            panic!("fail-safe read does not terminate");
        }
        match r.read(&mut buf) {
            Ok(0) => break,
            Ok(k) => out.extend_from_slice(&buf[..k]),
            Err(_) => {
                ended_with_err = true;
                break;
            }
        }
    }
    (out, ended_with_err)
}

/// fail-safe decompressor: intact multi-block streams of several entropies, throttled source,
/// small and large caller buffers, flush-then-cut. The solver's state values select the emphasis
/// (`short` -> 1-byte source; `pending` > 0 -> flush/cut) but every scenario is always run.
#[test]
fn cmp_fs() {
    let r = catch_unwind(AssertUnwindSafe(|| -> Option<String> {
        let blen = (v_u64("blen", 8) as usize).clamp(1, 8);
        // --- A/B: intact streams crossing 2 block edges, every entropy, several transfer schedules
        for entropy in [0u64, 1, 2] {
            let total = 2 * BLOCK + BLOCK / 3 + 5;
            let data = data_of(total, entropy);
            let (comp, sizes) = compress_stream(&data, 3);
            let body: u64 = sizes.iter().map(|v| u64::from(*v)).sum();
            for (per_read, rb) in [(usize::MAX, 8 * 1024 * 1024), (usize::MAX, 4096), (1usize, 4096), (7, blen), (usize::MAX, 1 << 16)] {
                if rb <= 8 && BLOCK > 1024 && entropy == 2 {
                    continue; // 8-byte reads over 9 MiB of incompressible data: too slow, covered by entropy 0/1
                }
                let (out, _err) = failsafe_all(&comp, per_read, rb);
                if out.len() as u64 != total || out != data {
                    let first_bad = out.iter().zip(data.iter()).position(|(a, b)| a != b);
                    return Some(format!(
                        "repair-side decompression of an INTACT {total}-byte stream (entropy class {entropy}, {} blocks, {body} compressed bytes) read through a source giving <= {} bytes per read with a {rb}-byte buffer recovered {} bytes (first difference {:?})",
                        sizes.len(), if per_read == usize::MAX { 0 } else { per_read }, out.len(), first_bad
                    ));
                }
            }
        }
        // --- C: flush, then cut exactly there
        for (len, entropy) in [(200_000u64, 0u64), (70_000, 1), (5, 2), (BLOCK + 17, 0)] {
            let data = data_of(len, entropy);
            let mut w = Box::new(CompressionLayerWriter::new(Box::new(RawLayerWriter::new(Vec::new())), &CompressionConfig::default()));
            w.write_all(&data).unwrap();
            w.flush().unwrap();
            let cut = w.into_raw();
            for rb in [8 * 1024 * 1024usize, 4096, blen] {
                let (out, _err) = failsafe_all(&cut, usize::MAX, rb);
                if out != data {
                    return Some(format!(
                        "{len} bytes (entropy class {entropy}) written and flushed, stream cut at the flush point ({} compressed bytes), fail-safe reader with a {rb}-byte buffer recovered {} bytes",
                        cut.len(), out.len()
                    ));
                }
            }
        }
        // --- D: after the end / after an error the reader can still be consumed without panicking
        {
            let data = data_of(100, 1);
            let (comp, _) = compress_stream(&data, 3);
            let mut r = CompressionLayerFailSafeReader::new(Box::new(RawLayerFailSafeReader::new(&comp[..]))).unwrap();
            let mut sink = Vec::new();
            let _ = r.read_to_end(&mut sink);
            let mut b = [0u8; 4];
            let _ = r.read(&mut b);
            let _ = Box::new(r).into_raw();
        }
        None
    }));
    report(r);
}

// ---------------------------------------------------------------------------------------------
// size table / seek / read of the normal reader on tables chosen by the solver
// ---------------------------------------------------------------------------------------------
fn table_from_env() -> (Vec<u32>, u32) {
    let k = v_u64("k", 1) as usize;
    let vals = [v_u64("a", 1) as u32, v_u64("b", 1) as u32, v_u64("c", 1) as u32];
    (vals[..k.min(3)].to_vec(), v_u64("last", 1) as u32)
}
fn reader_over(table: Vec<u32>, last: u32, inner_len: usize) -> CompressionLayerReader<'static, Cursor<Vec<u8>>> {
    let inner = Box::new(RawLayerReader::new(Cursor::new(vec![0u8; inner_len])));
    let mut r = CompressionLayerReader::new(inner).unwrap();
    r.sizes_info = Some(SizesInfo { compressed_sizes: table, last_block_size: last });
    r
}

#[test]
fn cmp_sizes() {
    let (t, last) = table_from_env();
    let pos = v_u64("pos", 0);
    let r = catch_unwind(AssertUnwindSafe(|| -> Option<String> {
        let k = t.len() as u64;
        let si = SizesInfo { compressed_sizes: t.clone(), last_block_size: last };
        let total = (k - 1) * BLOCK + u64::from(last);
        if si.max_uncompressed_pos() != total {
            return Some(format!("max_uncompressed_pos() = {}, layout says {total}", si.max_uncompressed_pos()));
        }
        let b = (pos / BLOCK) as usize;
        let want = if (b as u64) + 1 < k { BLOCK as u32 } else { last };
        if si.uncompressed_block_size_at(b) != want {
            return Some(format!("uncompressed_block_size_at({b}) = {}, layout says {want}", si.uncompressed_block_size_at(b)));
        }
        match si.compressed_block_size_at(pos) {
            Ok(c) if c == t[b] => {}
            other => return Some(format!("compressed_block_size_at({pos}) = {other:?}, table says {}", t[b])),
        }
        if si.get_compressed_size() != t.iter().map(|v| u64::from(*v)).sum::<u64>() {
            return Some("get_compressed_size() is not the sum of the table".to_string());
        }
        None
    }));
    report(r);
}

/// real streams: seek/read of the normal reader equal a cursor over the original data
#[test]
fn cmp_seek() {
    let r = catch_unwind(AssertUnwindSafe(|| -> Option<String> {
        // the solver's table only fixes the SHAPE (number of blocks, last block full or not); real
        // compressed sizes come from real brotli
        let (t, last) = table_from_env();
        let k = t.len().max(1) as u64;
        let last = u64::from(last).clamp(1, BLOCK);
        let total = (k - 1) * BLOCK + last;
        let data = data_of(total, 1);
        let (comp, _) = compress_stream(&data, 1);
        let mut rd = CompressionLayerReader::new(Box::new(RawLayerReader::new(Cursor::new(comp)))).unwrap();
        rd.initialize().unwrap();
        let mut reference = Cursor::new(&data[..]);
        let mut checks: Vec<SeekFrom> = vec![SeekFrom::End(0), SeekFrom::End(-4), SeekFrom::Start(total), SeekFrom::Start(0), SeekFrom::Start(total - 1)];
        if v_str("op", "start") == "start" {
            checks.push(SeekFrom::Start(v_u64("p", 0).min(total)));
        } else {
            let cur = v_u64("cur", 0).min(total);
            checks.push(SeekFrom::Start(cur));
            let d = v_i64("d", 0);
            checks.push(if v_u64("from_end", 0) == 1 { SeekFrom::End(d) } else { SeekFrom::Current(d) });
            checks.push(SeekFrom::Current(0));
        }
        for sf in checks {
            let want = reference.seek(sf).ok();
            let got = rd.seek(sf);
            match (want, got) {
                (Some(w), Ok(g)) if w == g && w <= total => {
                    let mut a = [0u8; 9];
                    let mut b = [0u8; 9];
                    let na = reference.read(&mut a).unwrap();
                    let mut nb = 0;
                    while nb < na {
                        match rd.read(&mut b[nb..na]) {
                            Ok(0) => break,
                            Ok(x) => nb += x,
                            Err(e) => return Some(format!("read after seek({sf:?}) failed: {e}")),
                        }
                    }
                    if na != nb || a[..na] != b[..nb] {
                        return Some(format!("bytes after seek({sf:?}) differ from the data at {w} ({nb} vs {na} bytes, stream of {total})"));
                    }
                }
                (Some(w), Ok(g)) if w > total => {
                    let _ = g;
                }
                (Some(w), other) if w <= total => return Some(format!("seek({sf:?}) on a {total}-byte stream ({k} blocks, last {last}) gave {other:?}, a cursor gives {w}")),
                _ => {}
            }
        }
        if v_str("op", "start") == "start" {
            // history dependence (own 2-block stream, whatever shape the solver's table has): consume
            // block 0 to its very last byte (the reader then still holds the exhausted decompressor of
            // block 0), abandon, and seek into the next block
            let total2 = BLOCK + 1000;
            let data2 = data_of(total2, 1);
            let (comp2, _) = compress_stream(&data2, 1);
            let mut rd2 = CompressionLayerReader::new(Box::new(RawLayerReader::new(Cursor::new(comp2)))).unwrap();
            rd2.initialize().unwrap();
            let mut sink = vec![0u8; BLOCK as usize + 64];
            let mut got = 0usize;
            // one read with a buffer larger than what is left in the block (reads never cross a block edge)
            while got < BLOCK as usize {
                match rd2.read(&mut sink[got..]) {
                    Ok(0) => break,
                    Ok(n) => got += n,
                    Err(e) => return Some(format!("reading block 0 failed: {e}")),
                }
            }
            let p = BLOCK + (v_u64("p", 0) % 900);
            match rd2.seek(SeekFrom::Start(p)) {
                Ok(g) if g == p => {
                    let mut b = [0u8; 16];
                    let want = &data2[p as usize..p as usize + 16];
                    let mut nb = 0;
                    while nb < want.len() {
                        match rd2.read(&mut b[nb..want.len()]) {
                            Ok(0) => break,
                            Ok(x) => nb += x,
                            Err(e) => return Some(format!("after reading block 0 to its last byte, seek(Start({p})) then read failed: {e}")),
                        }
                    }
                    if b[..nb] != *want {
                        return Some(format!("after reading block 0 to its last byte, the bytes at {p} depend on that history"));
                    }
                }
                other => return Some(format!("after reading block 0 to its last byte, seek(Start({p})) gave {other:?}")),
            }
        }
        if v_str("op", "start") != "start" {
            // the state a relative seek leaves behind must also carry sequential reading to the very
            // end of the stream (a stale in-block counter shows only at the next block edge).
            // seek(Start(cur)) leaves the reader INSIDE the block holding cur.
            let cur = v_u64("cur", 0).min(total);
            let d = v_i64("d", 0);
            rd.seek(SeekFrom::Start(cur)).ok()?;
            reference.seek(SeekFrom::Start(cur)).ok()?;
            let sf = if v_u64("from_end", 0) == 1 { SeekFrom::End(d) } else { SeekFrom::Current(d) };
            let want = reference.seek(sf).ok().filter(|w| *w <= total);
            let got = rd.seek(sf);
            match (want, got) {
                (Some(w), Ok(g)) if w == g => {
                    let mut rest = Vec::new();
                    let mut buf = vec![0u8; 1 << 16];
                    loop {
                        match rd.read(&mut buf) {
                            Ok(0) => break,
                            Ok(n) => rest.extend_from_slice(&buf[..n]),
                            Err(e) => return Some(format!("sequential read after a relative seek to {w} failed: {e}")),
                        }
                    }
                    if rest.len() as u64 != total - w || rest[..] != data[w as usize..] {
                        return Some(format!("after seek(Start({cur})) then {sf:?} (position {w}) sequential reading returned {} bytes, the stream holds {} more", rest.len(), total - w));
                    }
                }
                (Some(w), other) => return Some(format!("{sf:?} from {cur} gave {other:?}, a cursor gives {w}")),
                _ => {}
            }
        }
        None
    }));
    report(r);
}

struct OneByteSeek(Cursor<Vec<u8>>);
impl Read for OneByteSeek {
    fn read(&mut self, buf: &mut [u8]) -> std::io::Result<usize> {
        let k = buf.len().min(1);
        self.0.read(&mut buf[..k])
    }
}
impl Seek for OneByteSeek {
    fn seek(&mut self, p: SeekFrom) -> std::io::Result<u64> {
        self.0.seek(p)
    }
}
/// sequential reading across every block edge near `c` through a 1-byte-per-read source
fn one_byte_source_scenario(comp: &[u8], data: &[u8], c: u64) -> Option<String> {
    let mut rd = CompressionLayerReader::new(Box::new(RawLayerReader::new(OneByteSeek(Cursor::new(comp.to_vec()))))).ok()?;
    rd.initialize().ok()?;
    // start a few bytes before the block edge at or before c
    let edge = (c / BLOCK) * BLOCK;
    let from = edge.saturating_sub(5);
    rd.seek(SeekFrom::Start(from)).ok()?;
    let mut out = Vec::new();
    let mut buf = [0u8; 4];
    // up to the end of the stream (a block started at the wrong byte may decode for a while)
    while out.len() < 4096 {
        match rd.read(&mut buf) {
            Ok(0) => break,
            Ok(n) => out.extend_from_slice(&buf[..n]),
            Err(e) => return Some(format!("through a source giving 1 byte per read, reading across the block edge at {edge} failed at {}: {e}", from + out.len() as u64)),
        }
    }
    let want = &data[from as usize..(from as usize + 4096).min(data.len())];
    if out.len() < want.len() || out[..want.len()] != *want {
        let first_diff = out.iter().zip(want.iter()).position(|(x, y)| x != y);
        return Some(format!("through a source giving 1 byte per read, reading from {from} across the block edge at {edge} returned {} bytes, {} expected; first byte that differs from the original: {first_diff:?}", out.len(), want.len()));
    }
    None
}

#[test]
fn cmp_read() {
    // sequential reading through block edges with the solver's buffer size
    let r = catch_unwind(AssertUnwindSafe(|| -> Option<String> {
        let (t, last) = table_from_env();
        let k = t.len().max(1) as u64;
        let last = u64::from(last).clamp(1, BLOCK);
        let total = (k - 1) * BLOCK + last;
        let data = data_of(total, 1);
        let (comp, _) = compress_stream(&data, 1);
        // the same scenario over a source that hands out ONE byte per read (a decompressor then
        // stops fetching as soon as a block's output is complete)
        {
            // (own 2-block stream: independent of the solver's table, so that it also runs when
            //  no witness values could be extracted)
            for entropy in [1u64, 2] {
                let d2 = data_of(BLOCK + 3000, entropy);
                let (c2, _) = compress_stream(&d2, 1);
                if let Some(e) = one_byte_source_scenario(&c2, &d2, BLOCK) {
                    return Some(e);
                }
            }
        }
        let mut rd = CompressionLayerReader::new(Box::new(RawLayerReader::new(Cursor::new(comp)))).unwrap();
        rd.initialize().unwrap();
        let c = v_u64("c_pos", 0).min(total);
        // start a little before the solver's position so that the edge is crossed by plain reads
        let from = c.saturating_sub(3);
        rd.seek(SeekFrom::Start(from)).unwrap();
        // blen 0: a read with an EMPTY buffer before every 3-byte read (Ok(0), nothing changes)
        let empty_reads = v_u64("blen", 4) == 0;
        let blen = if empty_reads { 3 } else { (v_u64("blen", 4) as usize).clamp(1, 8) };
        let mut out = Vec::new();
        let mut buf = [0u8; 8];
        while out.len() < 24 {
            if empty_reads {
                match rd.read(&mut []) {
                    Ok(0) => {}
                    other => return Some(format!("a read with an empty buffer at {} returned {other:?}", from + out.len() as u64)),
                }
            }
            match rd.read(&mut buf[..blen]) {
                Ok(0) => break,
                Ok(n) => out.extend_from_slice(&buf[..n]),
                Err(e) => return Some(format!("read at {}{} failed: {e}", from + out.len() as u64, if empty_reads { " (after a read with an empty buffer)" } else { "" })),
            }
            let pos = rd.stream_position().unwrap();
            if pos != from + out.len() as u64 {
                return Some(format!("position {pos} after reading up to {}", from + out.len() as u64));
            }
        }
        let want = &data[from as usize..(from as usize + 24).min(data.len())];
        if out.len() < want.len() || out[..want.len()] != *want {
            return Some(format!("sequential read from {from} across a block edge returned {} bytes, expected {} identical ones", out.len(), want.len()));
        }
        None
    }));
    report(r);
}

/// untrusted table + any operation: no panic
#[test]
fn cmp_total() {
    let (t, last) = table_from_env();
    let r = catch_unwind(AssertUnwindSafe(|| -> Option<String> {
        let mut rd = reader_over(t.clone(), last, 1 << 16);
        rd.underlayer_pos = v_u64("upos", 0);
        if v_str("op", "seek") == "seek" {
            let off = v_u64("off", 0);
            let sf = match v_u64("which", 0) % 3 {
                0 => SeekFrom::Start(off),
                1 => SeekFrom::Current(off as i64),
                _ => SeekFrom::End(off as i64),
            };
            let _ = rd.seek(sf);
        } else {
            let mut buf = [0u8; 4];
            let blen = (v_u64("blen", 1) as usize).min(4);
            let _ = rd.read(&mut buf[..blen]);
            let _ = rd.seek(SeekFrom::Start(0));
        }
        None
    }));
    report(r);
}

#[test]
fn cmp_init() {
    let n = v_u64("n", 0).min(1 << 20) as usize;
    let lenfield = v_u64("lenfield", 0) as u32;
    let r = catch_unwind(AssertUnwindSafe(|| -> Option<String> {
        let mut bytes = vec![0u8; n];
        if n >= 4 {
            bytes[n - 4..].copy_from_slice(&lenfield.to_le_bytes());
        }
        let mut rd = CompressionLayerReader::new(Box::new(RawLayerReader::new(Cursor::new(bytes)))).unwrap();
        let _ = rd.initialize();
        None
    }));
    report(r);
}

/// flush then cut: everything written before the flush must be recoverable from the bytes the sink
/// holds at that moment (observed through a shared buffer: into_raw() would close the stream)
#[test]
fn cmp_flush() {
    use std::cell::RefCell;
    use std::rc::Rc;
    struct Shared(Rc<RefCell<Vec<u8>>>);
    impl Write for Shared {
        fn write(&mut self, buf: &[u8]) -> std::io::Result<usize> {
            self.0.borrow_mut().extend_from_slice(buf);
            Ok(buf.len())
        }
        fn flush(&mut self) -> std::io::Result<()> {
            Ok(())
        }
    }
    let r = catch_unwind(AssertUnwindSafe(|| -> Option<String> {
        let w0 = v_u64("written", BLOCK).clamp(1, BLOCK);
        for (len, entropy) in [(BLOCK, 1u64), (w0, 1), (2 * BLOCK, 0), (BLOCK - 1, 1), (BLOCK + 1, 1)] {
            let data = data_of(len, entropy);
            let store = Rc::new(RefCell::new(Vec::new()));
            let mut w = Box::new(CompressionLayerWriter::new(Box::new(RawLayerWriter::new(Shared(store.clone()))), &CompressionConfig::default()));
            w.write_all(&data).unwrap();
            w.flush().unwrap();
            let cut = store.borrow().clone();
            let (out, _err) = failsafe_all(&cut, usize::MAX, 1 << 16);
            if out != data {
                return Some(format!(
                    "{len} bytes written to the compression layer, flush() returned, destination cut there ({} bytes): repair-side decompression recovers {} bytes",
                    cut.len(), out.len()
                ));
            }
            drop(w);
        }
        None
    }));
    report(r);
}
