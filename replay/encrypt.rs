// Native replay templates for the encryption layer. Appended as a `#[cfg(test)]` child module to a
// scratch copy of the REAL mla/src/layers/encrypt.rs (real aes/ctr/ghash, no stub, no model), run
// by bin/replay.py with the solver's values in VR_* environment variables.
// Each template prints exactly one `REPLAY-RESULT: reproduced|not-reproduced|skipped <detail>`.
#![allow(dead_code, unused_imports, clippy::all)]
use super::*;
use crate::layers::raw::{RawLayerFailSafeReader, RawLayerReader, RawLayerWriter};
use std::io::{Cursor, Read, Seek, SeekFrom, Write};
use std::panic::{catch_unwind, AssertUnwindSafe};

const CH: u64 = 131_072;
const CTS: u64 = 131_088;
const CAP: u64 = 6 * CTS;

fn v_u64(name: &str, default: u64) -> u64 {
    std::env::var(format!("VR_{name}")).ok().and_then(|s| s.parse::<u64>().ok()).unwrap_or(default)
}
fn v_i64(name: &str, default: i64) -> i64 {
    std::env::var(format!("VR_{name}")).ok().and_then(|s| s.parse::<i64>().ok()).unwrap_or(default)
}
fn v_str(name: &str, default: &str) -> String {
    std::env::var(format!("VR_{name}")).unwrap_or_else(|_| default.to_string())
}
fn wf(n: u64) -> bool {
    let r = n % CTS;
    n == 16 || (r == 0 && n > 0) || r > 16
}
fn plain_len(n: u64) -> u64 {
    let r = n % CTS;
    (n / CTS) * CH + if r == 0 { 0 } else { r - 16 }
}
const KEY: Key = [2u8; 32];
const NONCE: [u8; NONCE_SIZE] = [3u8; NONCE_SIZE];

fn plain_of(len: u64) -> Vec<u8> {
    (0..len).map(|i| (i.wrapping_mul(2_654_435_761) >> 7) as u8).collect()
}
/// real writer -> tagged stream
fn encrypt_stream(plain: &[u8]) -> Vec<u8> {
    let cfg = EncryptionConfig { ecc_keys: Vec::new(), key: KEY, nonce: NONCE };
    let mut w = Box::new(EncryptionLayerWriter::new(Box::new(RawLayerWriter::new(Vec::new())), &cfg).unwrap());
    w.write_all(plain).unwrap();
    w.finalize().unwrap();
    w.into_raw()
}
fn reader_cfg(unauth: bool) -> EncryptionReaderConfig {
    EncryptionReaderConfig {
        private_keys: Vec::new(),
        encrypt_parameters: Some((KEY, NONCE)),
        failsafe_mode: if unauth {
            FailSafeReaderDecryptionMode::DataEvenUnauthenticated
        } else {
            FailSafeReaderDecryptionMode::OnlyAuthenticatedData
        },
    }
}
fn report(r: Result<Option<String>, Box<dyn std::any::Any + Send>>) {
    match r {
        Ok(None) => println!("REPLAY-RESULT: not-reproduced real code agrees with the specification on these values"),
        Ok(Some(s)) => println!("REPLAY-RESULT: reproduced {s}"),
        Err(p) => {
            let msg = p.downcast_ref::<String>().cloned().or_else(|| p.downcast_ref::<&str>().map(|s| s.to_string())).unwrap_or_default();
            println!("REPLAY-RESULT: reproduced real code panicked: {msg}")
        }
    }
}

/// seek on the real reader over a real encrypted stream vs std::io::Cursor over the plaintext
#[test]
fn enc_seek() {
    let n = v_u64("n", 16);
    let op = v_str("op", "end");
    if !wf(n) || n > CAP {
        println!("REPLAY-RESULT: skipped inner length {n} not materialisable (cap {CAP}) or not well-formed");
        return;
    }
    let big_l = plain_len(n);
    let plain = plain_of(big_l);
    let bytes = encrypt_stream(&plain);
    if bytes.len() as u64 != n {
        println!("REPLAY-RESULT: reproduced writer produced {} bytes for {} plaintext bytes, format says {}", bytes.len(), big_l, n);
        return;
    }
    let r = catch_unwind(AssertUnwindSafe(|| -> Option<String> {
        let mut l = EncryptionLayerInternal::new(Box::new(Cursor::new(bytes.clone())), &reader_cfg(false)).unwrap();
        let mut reference = Cursor::new(plain.clone());
        let sf = match op.as_str() {
            "start" => SeekFrom::Start(v_u64("p", 0)),
            "end" => SeekFrom::End(v_i64("d", 0)),
            _ => SeekFrom::Current(v_i64("d", 0)),
        };
        if op == "current" {
            // reach offset c through the API: by a seek, or by reading up to it
            let c = v_u64("c", 0);
            if v_u64("by_read", 0) == 1 {
                l.seek(SeekFrom::Start(0)).unwrap();
                let mut sink = vec![0u8; c as usize];
                l.read_exact(&mut sink).unwrap();
            } else {
                l.seek(SeekFrom::Start(c)).unwrap();
            }
            reference.seek(SeekFrom::Start(c)).unwrap();
        } else {
            // arbitrary pre-state as drawn by the solver (history abstraction)
            l.inner.set_position(v_u64("ipos", 0));
            l.current_chunk_number = v_u64("ccn", 0) as u32;
            let cl = v_u64("cl", 0).min(CH) as usize;
            l.chunk_cache = Cursor::new(vec![0u8; cl]);
            l.chunk_cache.set_position(v_u64("cp", 0));
        }
        let want = reference.seek(sf).ok();
        let got = l.seek(sf);
        match (want, got) {
            (Some(w), Ok(g)) if w == g => {}
            (Some(w), Ok(g)) => return Some(format!("seek({sf:?}) on a stream of {big_l} plaintext bytes (inner {n}) returned {g}, a cursor returns {w}")),
            (Some(w), Err(e)) => return Some(format!("seek({sf:?}) on a stream of {big_l} plaintext bytes (inner {n}) failed with {e}, a cursor returns {w}")),
            (None, _) => return None,
        }
        let w = want.unwrap();
        let pos = l.stream_position();
        if pos.as_ref().ok() != Some(&w) {
            return Some(format!("stream_position() after seek({sf:?}) = {pos:?}, expected {w} (plaintext {big_l}, inner {n})"));
        }
        let mut a = [0u8; 24];
        let mut b = [0u8; 24];
        let na = reference.read(&mut a).unwrap();
        let mut nb = 0;
        while nb < na {
            match l.read(&mut b[nb..na]) {
                Ok(0) => break,
                Ok(k) => nb += k,
                Err(e) => return Some(format!("read after seek({sf:?}) failed: {e}")),
            }
        }
        if na != nb || a[..na] != b[..nb] {
            return Some(format!("bytes read after seek({sf:?}) differ from the plaintext at {w} ({nb} vs {na} bytes)"));
        }
        None
    }));
    report(r);
}

#[test]
fn enc_maps() {
    let p = v_u64("p", 0);
    let r = catch_unwind(|| -> Option<String> {
        let t = no_tag_position_to_tag_position(p);
        let want = p + 16 * (p / CH);
        if t != want {
            return Some(format!("no_tag_position_to_tag_position({p}) = {t}, layout says {want}"));
        }
        if (CHUNK_SIZE, TAG_LENGTH as u64, CHUNK_TAG_SIZE) != (CH, 16, CTS) {
            return Some(format!("format constants changed: chunk {CHUNK_SIZE} tag {TAG_LENGTH}"));
        }
        None
    });
    report(r);
}

#[test]
fn enc_maps_inv() {
    let k = v_u64("k", 0);
    let o = v_u64("o", 0);
    let r = catch_unwind(|| -> Option<String> {
        let got = tag_position_to_no_tag_position(k * CTS + o);
        let want = if o < CH { k * CH + o } else { (k + 1) * CH };
        if got != want {
            return Some(format!("tag_position_to_no_tag_position({}) = {got}, layout says {want}", k * CTS + o));
        }
        if o < CH && no_tag_position_to_tag_position(got) != k * CTS + o {
            return Some(format!("maps are not inverse at tagged position {}", k * CTS + o));
        }
        None
    });
    report(r);
}
