// Native replay templates for the encryption layer. Appended as a `#[cfg(test)]` child module to a
// scratch copy of the REAL mla/src/layers/encrypt.rs (real aes/ctr/ghash, no stub, no model), run
// by bin/replay.py with the solver's values in VR_* environment variables.
// Each template prints exactly one `REPLAY-RESULT: reproduced|not-reproduced|skipped <detail>`.
#![allow(dead_code, unused_imports, clippy::all)]
use super::*;
use crate::layers::raw::{RawLayerFailSafeReader, RawLayerReader, RawLayerWriter};
use std::io::{Cursor, Read, Seek, SeekFrom, Write};
use std::panic::{catch_unwind, AssertUnwindSafe};

const CH: u64 = 131_072;
const CTS: u64 = 131_088;
const CAP: u64 = 6 * CTS;

fn v_u64(name: &str, default: u64) -> u64 {
    std::env::var(format!("VR_{name}")).ok().and_then(|s| s.parse::<u64>().ok()).unwrap_or(default)
}
fn v_i64(name: &str, default: i64) -> i64 {
    std::env::var(format!("VR_{name}")).ok().and_then(|s| s.parse::<i64>().ok()).unwrap_or(default)
}
fn v_str(name: &str, default: &str) -> String {
    std::env::var(format!("VR_{name}")).unwrap_or_else(|_| default.to_string())
}
fn wf(n: u64) -> bool {
    let r = n % CTS;
    n == 16 || (r == 0 && n > 0) || r > 16
}
fn plain_len(n: u64) -> u64 {
    let r = n % CTS;
    (n / CTS) * CH + if r == 0 { 0 } else { r - 16 }
}
const KEY: Key = [2u8; 32];
const NONCE: [u8; NONCE_SIZE] = [3u8; NONCE_SIZE];

fn plain_of(len: u64) -> Vec<u8> {
    (0..len).map(|i| (i.wrapping_mul(2_654_435_761) >> 7) as u8).collect()
}
/// real writer -> tagged stream
fn encrypt_stream(plain: &[u8]) -> Vec<u8> {
    let cfg = EncryptionConfig { ecc_keys: Vec::new(), key: KEY, nonce: NONCE };
    let mut w = Box::new(EncryptionLayerWriter::new(Box::new(RawLayerWriter::new(Vec::new())), &cfg).unwrap());
    w.write_all(plain).unwrap();
    w.finalize().unwrap();
    w.into_raw()
}
fn reader_cfg(unauth: bool) -> EncryptionReaderConfig {
    EncryptionReaderConfig {
        private_keys: Vec::new(),
        encrypt_parameters: Some((KEY, NONCE)),
        failsafe_mode: if unauth {
            FailSafeReaderDecryptionMode::DataEvenUnauthenticated
        } else {
            FailSafeReaderDecryptionMode::OnlyAuthenticatedData
        },
    }
}
fn report(r: Result<Option<String>, Box<dyn std::any::Any + Send>>) {
    match r {
        Ok(None) => println!("REPLAY-RESULT: not-reproduced real code agrees with the specification on these values"),
        Ok(Some(s)) => println!("REPLAY-RESULT: reproduced {s}"),
        Err(p) => {
            let msg = p.downcast_ref::<String>().cloned().or_else(|| p.downcast_ref::<&str>().map(|s| s.to_string())).unwrap_or_default();
            println!("REPLAY-RESULT: reproduced real code panicked: {msg}")
        }
    }
}

/// seek on the real reader over a real encrypted stream vs std::io::Cursor over the plaintext
#[test]
fn enc_seek() {
    let n = v_u64("n", 16);
    let op = v_str("op", "end");
    if !wf(n) || n > CAP {
        println!("REPLAY-RESULT: skipped inner length {n} not materialisable (cap {CAP}) or not well-formed");
        return;
    }
    let big_l = plain_len(n);
    let plain = plain_of(big_l);
    let bytes = encrypt_stream(&plain);
    if bytes.len() as u64 != n {
        println!("REPLAY-RESULT: reproduced writer produced {} bytes for {} plaintext bytes, format says {}", bytes.len(), big_l, n);
        return;
    }
    let r = catch_unwind(AssertUnwindSafe(|| -> Option<String> {
        let mut l = EncryptionLayerInternal::new(Box::new(Cursor::new(bytes.clone())), &reader_cfg(false)).unwrap();
        let mut reference = Cursor::new(plain.clone());
        let sf = match op.as_str() {
            "start" => SeekFrom::Start(v_u64("p", 0)),
            "end" => SeekFrom::End(v_i64("d", 0)),
            _ => SeekFrom::Current(v_i64("d", 0)),
        };
        if op == "current" {
            // reach offset c through the API: by a seek, or by reading up to it
            let c = v_u64("c", 0);
            if v_u64("by_read", 0) == 1 {
                l.seek(SeekFrom::Start(0)).unwrap();
                let mut sink = vec![0u8; c as usize];
                l.read_exact(&mut sink).unwrap();
            } else {
                l.seek(SeekFrom::Start(c)).unwrap();
            }
            reference.seek(SeekFrom::Start(c)).unwrap();
        } else {
            // arbitrary pre-state as drawn by the solver (history abstraction)
            l.inner.set_position(v_u64("ipos", 0));
            l.current_chunk_number = v_u64("ccn", 0) as u32;
            let cl = v_u64("cl", 0).min(CH) as usize;
            l.chunk_cache = Cursor::new(vec![0u8; cl]);
            l.chunk_cache.set_position(v_u64("cp", 0));
        }
        let want = reference.seek(sf).ok().filter(|w| *w <= big_l);
        let got = l.seek(sf);
        match (want, got) {
            (Some(w), Ok(g)) if w == g => {}
            (Some(w), Ok(g)) => return Some(format!("seek({sf:?}) on a stream of {big_l} plaintext bytes (inner {n}) returned {g}, a cursor returns {w}")),
            (Some(w), Err(e)) => return Some(format!("seek({sf:?}) on a stream of {big_l} plaintext bytes (inner {n}) failed with {e}, a cursor returns {w}")),
            (None, _) => return None,
        }
        let w = want.unwrap();
        let pos = l.stream_position();
        if pos.as_ref().ok() != Some(&w) {
            return Some(format!("stream_position() after seek({sf:?}) = {pos:?}, expected {w} (plaintext {big_l}, inner {n})"));
        }
        let mut a = [0u8; 24];
        let mut b = [0u8; 24];
        let na = reference.read(&mut a).unwrap();
        let mut nb = 0;
        while nb < na {
            match l.read(&mut b[nb..na]) {
                Ok(0) => break,
                Ok(k) => nb += k,
                Err(e) => return Some(format!("read after seek({sf:?}) failed: {e}")),
            }
        }
        if na != nb || a[..na] != b[..nb] {
            return Some(format!("bytes read after seek({sf:?}) differ from the plaintext at {w} ({nb} vs {na} bytes)"));
        }
        None
    }));
    report(r);
}

#[test]
fn enc_maps() {
    let p = v_u64("p", 0);
    let r = catch_unwind(|| -> Option<String> {
        let t = no_tag_position_to_tag_position(p);
        let want = p + 16 * (p / CH);
        if t != want {
            return Some(format!("no_tag_position_to_tag_position({p}) = {t}, layout says {want}"));
        }
        if (CHUNK_SIZE, TAG_LENGTH as u64, CHUNK_TAG_SIZE) != (CH, 16, CTS) {
            return Some(format!("format constants changed: chunk {CHUNK_SIZE} tag {TAG_LENGTH}"));
        }
        None
    });
    report(r);
}

#[test]
fn enc_maps_inv() {
    let k = v_u64("k", 0);
    let o = v_u64("o", 0);
    let r = catch_unwind(|| -> Option<String> {
        let got = tag_position_to_no_tag_position(k * CTS + o);
        let want = if o < CH { k * CH + o } else { (k + 1) * CH };
        if got != want {
            return Some(format!("tag_position_to_no_tag_position({}) = {got}, layout says {want}", k * CTS + o));
        }
        if o < CH && no_tag_position_to_tag_position(got) != k * CTS + o {
            return Some(format!("maps are not inverse at tagged position {}", k * CTS + o));
        }
        None
    });
    report(r);
}

// ---------------------------------------------------------------------------------------------
// load_in_cache / load_in_cache_unauthenticated on a real stream
// ---------------------------------------------------------------------------------------------
fn ch() -> u64 {
    CHUNK_SIZE
}
fn cts() -> u64 {
    CHUNK_SIZE + TAG_LENGTH as u64
}
/// a real stream whose chunk `ccn` starts at ccn*CTS and of which `rem` bytes remain from there
/// (rem <= CTS: the stream is cut after `rem` bytes of that chunk; when `exact_last` the chunk is a
/// genuine last chunk with rem-16 plaintext bytes and a valid tag)
fn stream_with_remaining(ccn: u64, rem: u64, exact_last: bool) -> (Vec<u8>, Vec<u8>) {
    let plain_len = if exact_last && rem >= 16 && rem <= cts() { ccn * ch() + (rem - 16) } else { (ccn + 2) * ch() };
    let plain = plain_of(plain_len);
    let mut s = encrypt_stream(&plain);
    let want = (ccn * cts() + rem) as usize;
    if s.len() > want {
        s.truncate(want);
    }
    (s, plain)
}

/// Read + Seek source that hands out at most 7 bytes per read when switched on
struct Throttle7 {
    c: Cursor<Vec<u8>>,
    reads: u32,
    on: bool,
}
impl Read for Throttle7 {
    fn read(&mut self, buf: &mut [u8]) -> std::io::Result<usize> {
        self.reads += 1;
        // natively EVERY read is short (std's loops cope; the number of calls std makes is not fixed)
        let lim = if self.on { buf.len().min(7) } else { buf.len() };
        self.c.read(&mut buf[..lim])
    }
}
impl Seek for Throttle7 {
    fn seek(&mut self, p: SeekFrom) -> std::io::Result<u64> {
        self.c.seek(p)
    }
}

#[cfg(not(verif_api_only))]
#[test]
fn enc_load() {
    let q = v_u64("q", 0);
    let n = v_u64("n", 0);
    let ccn = v_u64("ccn", 0) % 4;
    let auth = v_u64("auth", 1) == 1;
    let rem = n.saturating_sub(q);
    let r = catch_unwind(AssertUnwindSafe(|| -> Option<String> {
        // an altered chunk is a GENUINE chunk (whatever its length) whose stored tag is then changed
        // where the solver chose: the recomputed and the stored tag differ exactly there
        let (mut s, _plain) = stream_with_remaining(ccn, rem.min(2 * cts()), auth || rem >= 16);
        if !auth && rem == 16 && s.len() as u64 == ccn * cts() {
            // the writer never emits an empty chunk: its tag comes from the reference AES-GCM
            use aes_gcm::{aead::Aead, Aes256Gcm, KeyInit as _};
            let mut nonce = [0u8; 12];
            nonce[..8].copy_from_slice(&NONCE);
            nonce[8..].copy_from_slice(&(ccn as u32).to_be_bytes());
            let empty: &[u8] = &[];
            s.extend_from_slice(&Aes256Gcm::new_from_slice(&KEY).unwrap().encrypt((&nonce).into(), empty).unwrap());
        }
        if !auth && rem >= 1 {
            // altered chunk: the stored TAG differs from the genuine one exactly where the solver
            // chose (a reader comparing only part of the tag accepts it); when the chunk has no
            // complete tag, flip a ciphertext bit instead
            let chunk_end = ((ccn * cts()) + rem.min(cts())) as usize;
            let tag_at = v_u64("tag_at", 0).min(15) as usize;
            let bits = (v_u64("tag_bits", 1) as u8).max(1);
            if rem.min(cts()) >= 16 && chunk_end <= s.len() {
                s[chunk_end - 16 + tag_at] ^= bits;
            } else {
                let at = (ccn * cts()) as usize;
                if at < s.len() {
                    s[at] ^= 0x80;
                }
            }
        }
        let total = s.len() as u64;
        let mut l = EncryptionLayerInternal::new(Box::new(Throttle7 { c: Cursor::new(s), reads: 0, on: v_u64("short", 0) == 1 }), &reader_cfg(false)).unwrap();
        l.inner.c.set_position(ccn * cts());
        l.current_chunk_number = ccn as u32;
        l.chunk_cache = Cursor::new(vec![7u8; 3]);
        l.chunk_cache.set_position(2);
        let res = l.load_in_cache();
        let here = total - ccn * cts();
        let got = here.min(cts());
        match res {
            Ok(None) if got == 0 => {}
            Ok(None) => return Some(format!("load_in_cache returned None with {got} bytes remaining")),
            Ok(Some(())) => {
                if !auth || got < 16 {
                    return Some(format!("load_in_cache accepted a chunk that cannot authenticate (remaining {got}, altered {})", !auth));
                }
                if l.chunk_cache.get_ref().len() as u64 != got - 16 {
                    return Some(format!("cache holds {} bytes, expected {}", l.chunk_cache.get_ref().len(), got - 16));
                }
            }
            Err(e) => {
                if auth && got >= 16 && (got == cts() || true) {
                    // a genuine (possibly last) chunk must verify
                    return Some(format!("load_in_cache rejected an authentic chunk: {e:?}"));
                }
                if !l.chunk_cache.get_ref().is_empty() {
                    return Some("bytes of a rejected chunk left in the cache".to_string());
                }
            }
        }
        if l.chunk_cache.position() != 0 {
            return Some(format!("cache cursor at {} after a load", l.chunk_cache.position()));
        }
        if l.inner.c.position() != ccn * cts() + got {
            return Some(format!("inner stream at {}, expected {}", l.inner.c.position(), ccn * cts() + got));
        }
        // independent view of the format: chunk `ccn` of a stream made by the real writer is an
        // AES-256-GCM message under nonce = archive nonce || BE32(ccn)
        {
            use aes_gcm::{aead::Aead, Aes256Gcm, KeyInit as _};
            let plain = plain_of((ccn + 1) * ch());
            let s = encrypt_stream(&plain);
            let at = (ccn * cts()) as usize;
            let mut nonce = [0u8; 12];
            nonce[..8].copy_from_slice(&NONCE);
            nonce[8..].copy_from_slice(&(ccn as u32).to_be_bytes());
            match Aes256Gcm::new_from_slice(&KEY).unwrap().decrypt((&nonce).into(), &s[at..at + cts() as usize]) {
                Ok(p) if p[..] == plain[(ccn * ch()) as usize..] => {}
                _ => return Some(format!("chunk {ccn} written by the library does not authenticate as AES-256-GCM under nonce = archive nonce || BE32({ccn})")),
            }
        }
        None
    }));
    report(r);
}

#[cfg(not(verif_api_only))]
#[test]
fn enc_load_history() {
    // a first load at chunk ccn0, then the reader is moved to chunk ccn and loads again: the second
    // chunk is accepted iff it is genuine, whatever the first load did
    let ccn0 = v_u64("ccn0", 3) % 4;
    let ccn = v_u64("ccn", 1) % 4;
    let auth0 = v_u64("auth0", 1) == 1;
    let auth = v_u64("auth", 0) == 1 && (ccn != ccn0 || auth0);
    let tag_at = v_u64("tag_at", 0).min(15) as usize;
    let bits = (v_u64("tag_bits", 1) as u8).max(1);
    let r = catch_unwind(AssertUnwindSafe(|| -> Option<String> {
        let plain = plain_of(4 * ch() + 2);
        let mut s = encrypt_stream(&plain);
        let alter = |s: &mut Vec<u8>, c: u64| {
            let end = ((c + 1) * cts()) as usize;
            s[end - 16 + tag_at] ^= bits;
        };
        if !auth0 {
            alter(&mut s, ccn0);
        }
        if !auth && ccn != ccn0 {
            alter(&mut s, ccn);
        }
        let second_genuine = if ccn == ccn0 { auth0 } else { auth };
        let mut l = EncryptionLayerInternal::new(Box::new(Throttle7 { c: Cursor::new(s), reads: 0, on: false }), &reader_cfg(false)).unwrap();
        l.inner.c.set_position(ccn0 * cts());
        l.current_chunk_number = ccn0 as u32;
        let _ = l.load_in_cache();
        l.inner.c.set_position(ccn * cts());
        l.current_chunk_number = ccn as u32;
        match l.load_in_cache() {
            Ok(Some(())) if second_genuine => {
                let off = (ccn * ch()) as usize;
                if l.chunk_cache.get_ref()[..] != plain[off..off + ch() as usize] {
                    return Some(format!("chunk {ccn} loaded after chunk {ccn0} decrypts to bytes that differ from the plaintext"));
                }
                None
            }
            Ok(Some(())) => Some(format!("after a load of chunk {ccn0} ({}), chunk {ccn} whose tag was altered (byte {tag_at}) was accepted: {} bytes exposed", if auth0 { "genuine" } else { "altered" }, l.chunk_cache.get_ref().len())),
            Ok(None) => Some(format!("load of chunk {ccn} returned None inside the stream")),
            Err(_) if !second_genuine => {
                if l.chunk_cache.get_ref().is_empty() { None } else { Some("bytes of a rejected chunk left in the cache".to_string()) }
            }
            Err(e) => Some(format!("genuine chunk {ccn} rejected after a load of chunk {ccn0}: {e:?}")),
        }
    }));
    report(r);
}

#[test]
fn enc_fs_new_empty() {
    let r = catch_unwind(AssertUnwindSafe(|| -> Option<String> {
        for unauth in [false, true] {
            let rd = EncryptionLayerFailSafeReader::new(Box::new(RawLayerFailSafeReader::new(Cursor::new(Vec::new()))), &reader_cfg(unauth));
            match rd {
                Ok(mut rd) => {
                    let mut buf = [0u8; 8];
                    match rd.read(&mut buf) {
                        Ok(0) => {}
                        other => return Some(format!("read on an empty encrypted stream returned {other:?}")),
                    }
                }
                Err(e) => return Some(format!("the repair reader (unauthenticated mode: {unauth}) cannot be built over an empty stream (archive cut right after its header): {e:?}")),
            }
        }
        None
    }));
    report(r);
}

#[test]
fn enc_seek_twice() {
    // public interface only: seek to the chunk where the reader stood, seek(Start(p)), read — on a
    // stream whose chunks are altered (tag byte) as the solver chose; no byte of an altered chunk
    // may come out
    let ccn0 = v_u64("ccn0", 3).min(8);
    let p_in = v_u64("p", 4).min(17);
    let ar = v_u64("ar", 1) == 1;
    let a = [v_u64("a0", 1) == 1, v_u64("a1", 0) == 1, v_u64("a2", 1) == 1, v_u64("a3", 1) == 1, ar, ar, ar, ar, ar];
    let tag_at = v_u64("tag_at", 0).min(15) as usize;
    let bits = (v_u64("tag_bits", 1) as u8).max(1);
    let r = catch_unwind(AssertUnwindSafe(|| -> Option<String> {
        // the target is given in units that fit the scaled build (chunk = 4): at production
        // constants use the same chunk index and in-chunk offset
        let (c1, o1) = (p_in / 4, p_in % 4);
        let (p0, p) = (ccn0 * ch(), c1 * ch() + o1);
        let plain = plain_of(9 * ch() + 2);
        let mut s = encrypt_stream(&plain);
        for (i, ok) in a.iter().enumerate() {
            if !ok {
                let end = ((i as u64 + 1) * cts()) as usize;
                s[end - 16 + tag_at] ^= bits;
            }
        }
        let mut l = EncryptionLayerInternal::new(Box::new(Throttle7 { c: Cursor::new(s), reads: 0, on: false }), &reader_cfg(false)).unwrap();
        // the reader stands at chunk ccn0 (whatever that access returned)
        let _ = l.seek(SeekFrom::Start(p0));
        if l.current_chunk_number as u64 != ccn0 {
            l.current_chunk_number = ccn0 as u32;
        }
        match l.seek(SeekFrom::Start(p)) {
            Ok(_) => {
                let mut b = [0u8; 1];
                match l.read(&mut b) {
                    Ok(1) if !a[c1 as usize] => Some(format!("reader at chunk {ccn0}, then seek(Start({p})): a byte of chunk {c1}, whose tag was altered (byte {tag_at}), was returned")),
                    Ok(1) if b[0] != plain[p as usize] => Some(format!("byte at {p} differs from the plaintext")),
                    _ => None,
                }
            }
            Err(_) => {
                if a[c1 as usize] { Some(format!("seek(Start({p})) onto the genuine chunk {c1} failed (reader was at chunk {ccn0})")) } else { None }
            }
        }
    }));
    report(r);
}

#[cfg(not(verif_api_only))]
#[test]
fn enc_load_unauth() {
    let q = v_u64("q", 0);
    let n = v_u64("n", 0);
    let ccn = v_u64("ccn", 0) % 4;
    let rem = n.saturating_sub(q);
    let r = catch_unwind(AssertUnwindSafe(|| -> Option<String> {
        let (s, plain) = stream_with_remaining(ccn, rem.min(2 * cts()), false);
        let total = s.len() as u64;
        let mut l = EncryptionLayerInternal::new(Box::new(Throttle7 { c: Cursor::new(s), reads: 0, on: v_u64("short", 0) == 1 }), &reader_cfg(true)).unwrap();
        l.inner.c.set_position(ccn * cts());
        l.current_chunk_number = ccn as u32;
        l.chunk_cache = Cursor::new(vec![7u8; 3]);
        l.chunk_cache.set_position(2);
        let res = l.load_in_cache_unauthenticated();
        let here = total - ccn * cts();
        let data = here.min(ch());
        match res {
            Ok(None) if data == 0 => {}
            Ok(None) => return Some(format!("unauthenticated load returned None with {here} bytes remaining")),
            Ok(Some(())) => {
                let c = l.chunk_cache.get_ref();
                if c.len() as u64 != data {
                    return Some(format!("cache holds {} bytes, {data} data bytes were present", c.len()));
                }
                let off = (ccn * ch()) as usize;
                if c[..] != plain[off..off + data as usize] {
                    return Some("unauthenticated load decrypted to bytes that differ from the plaintext".to_string());
                }
            }
            Err(e) => return Some(format!("unauthenticated load failed: {e:?}")),
        }
        if l.chunk_cache.position() != 0 {
            return Some(format!("cache cursor at {} after a load", l.chunk_cache.position()));
        }
        let want = ccn * cts() + data + (here - data).min(16);
        if l.inner.c.position() != want {
            return Some(format!("inner stream at {}, expected {want}", l.inner.c.position()));
        }
        None
    }));
    report(r);
}

fn auth_flags() -> [bool; 5] {
    [v_u64("a0", 1) == 1, v_u64("a1", 1) == 1, v_u64("a2", 1) == 1, v_u64("a3", 1) == 1, v_u64("ar", 1) == 1]
}
fn is_auth(f: &[bool; 5], i: u64) -> bool {
    if i < 4 { f[i as usize] } else { f[4] }
}
/// corrupt (flip a bit in) every chunk the solver marked as not authentic
fn corrupt(s: &mut [u8], f: &[bool; 5]) {
    let mut i = 0u64;
    while i * cts() < s.len() as u64 {
        if !is_auth(f, i) {
            s[(i * cts()) as usize] ^= 0x01;
        }
        i += 1;
    }
}

/// sequential read of the normal reader from offset c (C03: never a byte that differs)
#[test]
fn enc_read() {
    let n = v_u64("n", 16);
    let c = v_u64("c", 0);
    let blen = v_u64("blen", 1) as usize;
    let f = auth_flags();
    if !wf(n) && CHUNK_SIZE == CH || n > 8 * cts() {
        println!("REPLAY-RESULT: skipped inner length {n} not materialisable");
        return;
    }
    let r = catch_unwind(AssertUnwindSafe(|| -> Option<String> {
        let r0 = n % cts();
        let big_l = (n / cts()) * ch() + if r0 == 0 { 0 } else { r0 - 16 };
        let plain = plain_of(big_l);
        let good = encrypt_stream(&plain);
        // the repair-only option of the configuration as the solver chose it (mode=1: default)
        let mut l = EncryptionLayerInternal::new(Box::new(Cursor::new(good.clone())), &reader_cfg(v_u64("mode", 1) == 0)).unwrap();
        // reach offset c on the pristine stream, then swap in the altered one (same length): what was
        // verified so far stays verified, the next chunk load sees the alteration
        if v_u64("by_read", 0) == 1 {
            l.seek(SeekFrom::Start(0)).unwrap();
            let mut sink = vec![0u8; c as usize];
            l.read_exact(&mut sink).unwrap();
        } else {
            l.seek(SeekFrom::Start(c)).unwrap();
        }
        let mut bad = good.clone();
        corrupt(&mut bad, &f);
        // whatever the solver's flags: a sequential read that has to load the next chunk must reject
        // it when that chunk is altered (tag checked on EVERY load of the normal reader)
        // (tried at EVERY chunk edge of the stream, not only at the solver's offset: at the very end
        //  of the stream an unauthenticated load has nothing to expose)
        let mut edge = ch();
        while edge < big_l {
            let mut l2 = EncryptionLayerInternal::new(Box::new(Cursor::new(good.clone())), &reader_cfg(v_u64("mode", 1) == 0)).unwrap();
            l2.seek(SeekFrom::Start(0)).unwrap();
            let mut sink = vec![0u8; edge as usize];
            l2.read_exact(&mut sink).unwrap();
            let mut alt = good.clone();
            let at = ((edge / ch()) * cts()) as usize;
            alt[at] ^= 0x40;
            let ipos2 = l2.inner.position();
            l2.inner = Box::new(Cursor::new(alt));
            l2.inner.set_position(ipos2);
            let mut b2 = vec![0u8; blen.max(1)];
            if let Ok(k) = l2.read_internal(&mut b2) {
                if k > 0 {
                    return Some(format!("sequential read across the chunk edge at {edge} returned {k} bytes of a chunk whose ciphertext was altered (repair-only option {} in the reader configuration)", if v_u64("mode", 1) == 0 { "set" } else { "not set" }));
                }
            }
            edge += ch();
        }
        let ipos = l.inner.position();
        l.inner = Box::new(Cursor::new(bad));
        l.inner.set_position(ipos);
        let mut buf = vec![0u8; blen];
        match l.read_internal(&mut buf) {
            Ok(k) => {
                let want = (blen as u64).min(ch() - c % ch()).min(big_l - c);
                let loaded_chunk = c / ch();
                if v_u64("by_read", 0) == 1 && c < big_l && !is_auth(&f, loaded_chunk) && k > 0 {
                    return Some(format!("read returned {k} bytes of altered chunk {loaded_chunk}"));
                }
                if buf[..k] != plain[c as usize..c as usize + k] {
                    return Some(format!("read at {c} returned bytes that differ from the original"));
                }
                if k as u64 != want && !(v_u64("by_read", 0) == 1 && !is_auth(&f, loaded_chunk)) {
                    return Some(format!("read at {c} of {blen} bytes returned {k}, a cursor returns {want}"));
                }
                None
            }
            Err(_) => {
                let loaded_chunk = c / ch();
                if v_u64("by_read", 0) == 1 && c < big_l && !is_auth(&f, loaded_chunk) {
                    None
                } else {
                    Some(format!("read at {c} failed on an unaltered chunk"))
                }
            }
        }
    }));
    report(r);
}

/// authenticated fail-safe reader on a stream of ANY length n with chunks altered as the solver
/// chose: output must be a prefix of the plaintext made of verified chunks only, and stay ended
#[test]
fn enc_fs_auth() {
    let n = v_u64("n", 16);
    let f = auth_flags();
    if n > 8 * cts() {
        println!("REPLAY-RESULT: skipped inner length {n} not materialisable");
        return;
    }
    let r = catch_unwind(AssertUnwindSafe(|| -> Option<String> {
        let chunks = n / cts() + 2;
        let plain = plain_of(chunks * ch());
        let mut s = encrypt_stream(&plain);
        s.truncate(n as usize);
        corrupt(&mut s, &f);
        let mut rd = EncryptionLayerFailSafeReader::new(Box::new(RawLayerFailSafeReader::new(Cursor::new(s))), &reader_cfg(false)).unwrap();
        let mut out = Vec::new();
        let mut buf = [0u8; 8];
        let b1 = (v_u64("b1", 8) as usize).clamp(1, 8);
        let mut zeros = 0;
        let mut guard = 0u64;
        loop {
            guard += 1;
            if guard > 4_000_000 {
                return Some("fail-safe read does not terminate".to_string());
            }
            match rd.read(&mut buf[..b1]) {
                Ok(0) => {
                    zeros += 1;
                    if zeros >= 3 {
                        break;
                    }
                }
                Ok(k) => {
                    if zeros > 0 {
                        return Some(format!("{k} bytes returned after the reader had reported the end (data after a failed chunk is used)"));
                    }
                    out.extend_from_slice(&buf[..k]);
                }
                Err(e) => return Some(format!("authenticated fail-safe read failed with {e} instead of ending")),
            }
        }
        // what may be output: chunks 0..m-1 where m = first chunk that is altered or incomplete
        let mut m = 0u64;
        while (m + 1) * cts() <= n && is_auth(&f, m) {
            m += 1;
        }
        // chunk 0 is the known finding F4 (never verified): tolerated here, witnessed by enc_fs_first
        let allowed = m * ch();
        if out.len() as u64 > allowed.max(if v_u64("tolerate_f4", 1) == 1 { ch().min(n) } else { 0 }) {
            return Some(format!("authenticated repair output {} bytes, only {allowed} are in verified chunks contiguous from the start", out.len()));
        }
        if (out.len() as u64) < allowed {
            return Some(format!("authenticated repair output {} bytes, {allowed} verified bytes were available", out.len()));
        }
        if out.len() as u64 <= allowed && out[..] != plain[..out.len()] {
            return Some("authenticated repair output differs from the original plaintext".to_string());
        }
        None
    }));
    report(r);
}

#[test]
fn enc_fs_unauth() {
    let n = v_u64("n", 16);
    if n > 8 * cts() {
        println!("REPLAY-RESULT: skipped inner length {n} not materialisable");
        return;
    }
    let r = catch_unwind(AssertUnwindSafe(|| -> Option<String> {
        let chunks = n / cts() + 2;
        let plain = plain_of(chunks * ch());
        let mut s = encrypt_stream(&plain);
        s.truncate(n as usize);
        let mut rd = EncryptionLayerFailSafeReader::new(Box::new(RawLayerFailSafeReader::new(Cursor::new(s))), &reader_cfg(true)).unwrap();
        let mut out = Vec::new();
        let b1 = (v_u64("b1", 8) as usize).clamp(1, 8);
        let mut buf = [0u8; 8];
        loop {
            match rd.read(&mut buf[..b1]) {
                Ok(0) => break,
                Ok(k) => out.extend_from_slice(&buf[..k]),
                Err(e) => return Some(format!("unauthenticated fail-safe read failed: {e}")),
            }
        }
        let want = (n / cts()) * ch() + (n % cts()).min(ch());
        if out.len() as u64 != want {
            return Some(format!("unauthenticated repair output {} bytes, {want} data bytes are present in {n} stream bytes", out.len()));
        }
        if out[..] != plain[..out.len()] {
            return Some("unauthenticated repair output differs from the original plaintext".to_string());
        }
        None
    }));
    report(r);
}

/// F4 witness: chunk 0 altered, authenticated mode
#[test]
fn enc_fs_first() {
    let n = v_u64("n", 64).min(3 * cts()).max(17);
    let r = catch_unwind(AssertUnwindSafe(|| -> Option<String> {
        let plain = plain_of(4 * ch());
        let mut s = encrypt_stream(&plain);
        s.truncate(n as usize);
        s[0] ^= 1;
        let mut rd = EncryptionLayerFailSafeReader::new(Box::new(RawLayerFailSafeReader::new(Cursor::new(s))), &reader_cfg(false)).unwrap();
        let mut buf = [0u8; 4];
        match rd.read(&mut buf) {
            Ok(k) if k > 0 => Some(format!("authenticated repair returned {k} bytes of chunk 0 whose ciphertext was altered (tag never checked)")),
            _ => None,
        }
    }));
    report(r);
}

/// any inner length, any seek: no panic (the stream content is irrelevant: bytes are zeros and the
/// tag check fails, which is an ordinary error)
#[test]
fn enc_seek_total() {
    let n = v_u64("n", 16).min(CAP);
    let which = v_u64("which", 0) % 3;
    let off = v_u64("off", 0);
    let r = catch_unwind(AssertUnwindSafe(|| -> Option<String> {
        let mut l = EncryptionLayerInternal::new(Box::new(Cursor::new(vec![0u8; n as usize])), &reader_cfg(false)).unwrap();
        l.inner.set_position(v_u64("ipos", 0).min(n));
        l.current_chunk_number = v_u64("ccn", 0) as u32;
        let cl = v_u64("cl", 0).min(CH) as usize;
        l.chunk_cache = Cursor::new(vec![0u8; cl]);
        l.chunk_cache.set_position(v_u64("cp", 0));
        let sf = match which {
            0 => SeekFrom::Start(off),
            1 => SeekFrom::Current(off as i64),
            _ => SeekFrom::End(off as i64),
        };
        let _ = l.seek(sf);
        None
    }));
    report(r);
}

struct OneByteSink(Vec<u8>);
/// length of the sink at its last flush (the sink sits behind boxed layers)
static SINK_LEN_AT_FLUSH: std::sync::atomic::AtomicU64 = std::sync::atomic::AtomicU64::new(u64::MAX);
impl Write for OneByteSink {
    fn write(&mut self, buf: &[u8]) -> std::io::Result<usize> {
        if buf.is_empty() {
            return Ok(0);
        }
        self.0.push(buf[0]);
        Ok(1)
    }
    fn flush(&mut self) -> std::io::Result<()> {
        SINK_LEN_AT_FLUSH.store(self.0.len() as u64, std::sync::atomic::Ordering::SeqCst);
        Ok(())
    }
}

/// real writer fed in the solver's pieces, decoded by an INDEPENDENT AES-256-GCM (aes-gcm crate)
/// chunk by chunk with nonce = archive nonce || BE32(chunk index)
#[test]
fn enc_writer() {
    use aes_gcm::{aead::Aead, Aes256Gcm, KeyInit as _};
    let off = v_u64("off", 0);
    let blen = v_u64("blen", 1);
    let ctr = v_u64("ctr", 0) % 3;
    let r = catch_unwind(AssertUnwindSafe(|| -> Option<String> {
        let first = ctr * ch() + off;
        let total = first + blen;
        let plain = plain_of(total);
        let cfg = EncryptionConfig { ecc_keys: Vec::new(), key: KEY, nonce: NONCE };
        // destination accepting ONE byte per write: the layer has to use write_all everywhere
        let mut w = Box::new(EncryptionLayerWriter::new(Box::new(RawLayerWriter::new(OneByteSink(Vec::new()))), &cfg).unwrap());
        w.write_all(&plain[..first as usize]).unwrap();
        let mut done = first as usize;
        while done < total as usize {
            let n = w.write(&plain[done..]).unwrap();
            if n == 0 {
                return Some("write() accepted nothing".to_string());
            }
            done += n;
        }
        // once flush() returns, every byte accepted so far has reached the destination (with the
        // tags of the chunks already closed): a cut right here loses nothing
        SINK_LEN_AT_FLUSH.store(u64::MAX, std::sync::atomic::Ordering::SeqCst);
        if w.flush().is_err() {
            return Some("flush failed on a healthy destination".to_string());
        }
        let at_flush = SINK_LEN_AT_FLUSH.load(std::sync::atomic::Ordering::SeqCst);
        let closed = if total == 0 { 0 } else { (total - 1) / ch() };
        if at_flush == u64::MAX {
            return Some("flush() of the encryption writer did not reach the destination".to_string());
        }
        if at_flush < total + 16 * closed {
            return Some(format!("{total} plaintext bytes written, flush() returned, the destination holds {at_flush} bytes ({} expected at least): data accepted before the flush would not survive a cut", total + 16 * closed));
        }
        w.finalize().unwrap();
        let out = w.into_raw().0;
        let chunks = if total == 0 { 1 } else { (total + ch() - 1) / ch() };
        if out.len() as u64 != total + 16 * chunks {
            return Some(format!("{} bytes emitted for {total} plaintext bytes: format says one 16-byte tag per {}-byte chunk ({} expected)", out.len(), ch(), total + 16 * chunks));
        }
        let aead = Aes256Gcm::new_from_slice(&KEY).unwrap();
        let mut pos = 0usize;
        let mut got = Vec::new();
        for i in 0..chunks {
            let len = (total - i * ch()).min(ch()) as usize + 16;
            let mut nonce = [0u8; 12];
            nonce[..8].copy_from_slice(&NONCE);
            nonce[8..].copy_from_slice(&(i as u32).to_be_bytes());
            match aead.decrypt((&nonce).into(), &out[pos..pos + len]) {
                Ok(p) => got.extend_from_slice(&p),
                Err(_) => return Some(format!("chunk {i} of the written stream does not authenticate as AES-256-GCM under nonce = archive nonce || BE32({i})")),
            }
            pos += len;
        }
        if got != plain {
            return Some("independent decryption of the written stream differs from the plaintext".to_string());
        }
        None
    }));
    report(r);
}

#[test]
fn enc_nonce() {
    let ctr = v_u64("ctr", 1) as u32;
    let r = catch_unwind(|| -> Option<String> {
        let n = build_nonce(NONCE, ctr);
        let mut want = [0u8; 12];
        want[..8].copy_from_slice(&NONCE);
        want[8..].copy_from_slice(&ctr.to_be_bytes());
        if n != want {
            return Some(format!("chunk nonce for counter {ctr} is {n:02x?}, the format says archive nonce || BE32(counter) = {want:02x?}"));
        }
        None
    });
    report(r);
}
