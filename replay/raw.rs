// Native replay templates for the raw layer
#![allow(dead_code, unused_imports, clippy::all)]
use super::*;
use std::io::{Cursor, Read, Seek, SeekFrom};
use std::panic::{catch_unwind, AssertUnwindSafe};
fn v_u64(name: &str, default: u64) -> u64 {
    std::env::var(format!("VR_{name}")).ok().and_then(|s| s.parse::<u64>().ok()).unwrap_or(default)
}
fn v_i64(name: &str, default: i64) -> i64 {
    std::env::var(format!("VR_{name}")).ok().and_then(|s| s.parse::<i64>().ok()).unwrap_or(default)
}
fn report(r: Result<Option<String>, Box<dyn std::any::Any + Send>>) {
    match r {
        Ok(None) => println!("REPLAY-RESULT: not-reproduced real code agrees with the specification on these values"),
        Ok(Some(s)) => println!("REPLAY-RESULT: reproduced {s}"),
        Err(p) => {
            let msg = p.downcast_ref::<String>().cloned().or_else(|| p.downcast_ref::<&str>().map(|s| s.to_string())).unwrap_or_default();
            println!("REPLAY-RESULT: reproduced real code panicked: {msg}")
        }
    }
}
/// zero-copy fake stream of any length: position bookkeeping only (reads give zeros)
struct Sparse {
    len: u64,
    pos: u64,
}
impl Read for Sparse {
    fn read(&mut self, buf: &mut [u8]) -> std::io::Result<usize> {
        let n = (self.len.saturating_sub(self.pos)).min(buf.len() as u64) as usize;
        self.pos += n as u64;
        Ok(n)
    }
}
impl Seek for Sparse {
    fn seek(&mut self, p: SeekFrom) -> std::io::Result<u64> {
        let np: i128 = match p {
            SeekFrom::Start(x) => x as i128,
            SeekFrom::Current(d) => self.pos as i128 + d as i128,
            SeekFrom::End(d) => self.len as i128 + d as i128,
        };
        if np < 0 || np > u64::MAX as i128 {
            return Err(std::io::Error::from(std::io::ErrorKind::InvalidInput));
        }
        self.pos = np as u64;
        Ok(self.pos)
    }
}

#[test]
fn raw_seek() {
    let n = v_u64("n", 100);
    let off = v_u64("off", 10).min(n);
    let cur = v_u64("cur", 0).min(n - off);
    let d = v_i64("d", 0);
    let which = v_u64("which", 0) % 3;
    let r = catch_unwind(AssertUnwindSafe(|| -> Option<String> {
        let mut rd = RawLayerReader::new(Sparse { len: n, pos: off });
        rd.reset_position().unwrap();
        let mut reference = Sparse { len: n - off, pos: 0 };
        rd.seek(SeekFrom::Start(cur)).unwrap();
        reference.seek(SeekFrom::Start(cur)).unwrap();
        let sf = match which {
            0 => SeekFrom::Start(d as u64),
            1 => SeekFrom::Current(d),
            _ => SeekFrom::End(d),
        };
        let want = reference.seek(sf).ok().filter(|w| *w <= n - off);
        let got = rd.seek(sf);
        match (want, got) {
            (Some(w), Ok(g)) if w == g => None,
            (Some(w), other) => Some(format!("raw layer seek({sf:?}) with a {off}-byte header on {n} bytes gave {other:?}, a cursor over the layer gives {w}")),
            _ => None,
        }
    }));
    report(r);
}

#[test]
fn raw_seek_total() {
    let n = v_u64("n", 100);
    let off = v_u64("off", 10).min(n);
    let d = v_u64("d", 0);
    let which = v_u64("which", 0) % 3;
    let r = catch_unwind(AssertUnwindSafe(|| -> Option<String> {
        let mut rd = RawLayerReader::new(Sparse { len: n, pos: off });
        let _ = rd.reset_position();
        let sf = match which {
            0 => SeekFrom::Start(d),
            1 => SeekFrom::Current(d as i64),
            _ => SeekFrom::End(d as i64),
        };
        let _ = rd.seek(sf);
        None
    }));
    report(r);
}
