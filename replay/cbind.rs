// Native replay templates for the C bindings (real crate, real mla)
#![allow(dead_code, unused_imports, clippy::all)]
use super::*;
use std::panic::{catch_unwind, AssertUnwindSafe};
fn v_u64(name: &str, default: u64) -> u64 {
    std::env::var(format!("VR_{name}")).ok().and_then(|s| s.parse::<u64>().ok()).unwrap_or(default)
}
fn v_i64(name: &str, default: i64) -> i64 {
    std::env::var(format!("VR_{name}")).ok().and_then(|s| s.parse::<i64>().ok()).unwrap_or(default)
}
fn report(r: Result<Option<String>, Box<dyn std::any::Any + Send>>) {
    match r {
        Ok(None) => println!("REPLAY-RESULT: not-reproduced real code agrees with the specification on these values"),
        Ok(Some(s)) => println!("REPLAY-RESULT: reproduced {s}"),
        Err(_) => println!("REPLAY-RESULT: reproduced real code panicked"),
    }
}
const BAD: u64 = 0x0012_0000;
extern "C" fn w_cb(_b: *const u8, l: u32, _c: *mut c_void, o: *mut u32) -> i32 {
    unsafe { *o = l };
    0
}
extern "C" fn f_cb(_c: *mut c_void) -> i32 {
    0
}
extern "C" fn r_cb(_b: *mut u8, _l: u32, _c: *mut c_void, o: *mut u32) -> i32 {
    unsafe { *o = 0 };
    0
}
extern "C" fn s_cb(_o: i64, _w: i32, _c: *mut c_void, n: *mut u64) -> i32 {
    unsafe { *n = 0 };
    0
}
extern "C" fn file_cb(_c: *mut c_void, _n: *const u8, _l: usize, _w: *mut FileWriter) -> i32 {
    1
}

/// null arguments: run in a child process would be ideal (a crash kills the test); here a crash
/// shows as the test binary dying, which the driver reports as "no verdict"
#[test]
fn c_null() {
    let r = catch_unwind(|| -> Option<String> {
        let mut bad = Vec::new();
        let mut chk = |name: &str, s: MLAStatus| {
            if s as u64 != BAD {
                bad.push(name.to_string());
            }
        };
        chk("mla_config_default_new(NULL)", mla_config_default_new(std::ptr::null_mut()));
        chk("mla_reader_config_new(NULL)", mla_reader_config_new(std::ptr::null_mut()));
        chk("mla_config_set_compression_level(NULL)", mla_config_set_compression_level(std::ptr::null_mut(), 1));
        chk("mla_archive_flush(NULL)", mla_archive_flush(std::ptr::null_mut()));
        chk("mla_archive_close(NULL)", mla_archive_close(std::ptr::null_mut()));
        let mut cleared: MLAArchiveHandle = std::ptr::null_mut();
        chk("mla_archive_close(&NULL)", mla_archive_close(&raw mut cleared));
        let mut cleared_f: MLAArchiveFileHandle = std::ptr::null_mut();
        chk("mla_archive_file_close(NULL, ..)", mla_archive_file_close(std::ptr::null_mut(), &raw mut cleared_f));
        chk("mla_roarchive_info(NULL cb)", mla_roarchive_info(None, std::ptr::null_mut(), std::ptr::null_mut()));
        // a live file handle survives a call refused on argument validation (real archive, file open)
        {
            let mut cfg: MLAConfigHandle = std::ptr::null_mut();
            if mla_config_default_new(&raw mut cfg) as u64 == 0 {
                unsafe { &mut *cfg.cast::<ArchiveWriterConfig>() }.set_layers(Layers::EMPTY);
                let mut archive: MLAArchiveHandle = std::ptr::null_mut();
                if mla_archive_new(&raw mut cfg, Some(w_cb), Some(f_cb), std::ptr::null_mut(), &raw mut archive) as u64 == 0 {
                    let name = std::ffi::CString::new("f").unwrap();
                    let mut fh: MLAArchiveFileHandle = std::ptr::null_mut();
                    if mla_archive_file_new(archive, name.as_ptr(), &raw mut fh) as u64 == 0 {
                        let keep = fh;
                        chk("mla_archive_file_close(NULL, &live)", mla_archive_file_close(std::ptr::null_mut(), &raw mut fh));
                        if fh != keep {
                            bad.push("mla_archive_file_close(NULL, &live) cleared the caller's live file handle although the call was refused".to_string());
                        } else {
                            let _ = mla_archive_file_close(archive, &raw mut fh);
                        }
                    }
                    let _ = mla_archive_close(&raw mut archive);
                }
            }
        }
        if bad.is_empty() { None } else { Some(format!("not refused with BadAPIArgument: {bad:?}")) }
    });
    report(r);
}

#[test]
fn c_new_null() {
    let r = catch_unwind(|| -> Option<String> {
        let mut out: MLAArchiveHandle = std::ptr::null_mut();
        let mut cfg: MLAConfigHandle = std::ptr::null_mut();
        if mla_config_default_new(&raw mut cfg) as u64 != 0 {
            return Some("cannot create a configuration".to_string());
        }
        let keep = cfg;
        let s = mla_archive_new(&raw mut cfg, None, Some(f_cb), std::ptr::null_mut(), &raw mut out) as u64;
        if s != BAD || !out.is_null() || cfg != keep {
            return Some(format!("mla_archive_new without a write callback returned {s:#x}, handle produced: {}, config consumed: {}", !out.is_null(), cfg != keep));
        }
        None
    });
    report(r);
}

#[test]
fn c_cleared_config() {
    // a crash here kills the test process: the driver then reports "no verdict"; to make the
    // outcome observable the dangerous call is made in a forked child
    let which = v_u64("which", 1);
    let pid = unsafe { fork() };
    if pid == 0 {
        let mut out: MLAArchiveHandle = std::ptr::null_mut();
        let mut slot: MLAConfigHandle = std::ptr::null_mut();
        let s = if which == 1 {
            mla_archive_new(&raw mut slot, Some(w_cb), Some(f_cb), std::ptr::null_mut(), &raw mut out) as u64
        } else {
            mla_roarchive_extract(&raw mut slot, Some(r_cb), Some(s_cb), Some(file_cb), std::ptr::null_mut()) as u64
        };
        unsafe { _exit(if s == BAD { 0 } else { 3 }) };
    }
    let mut status: i32 = 0;
    unsafe { waitpid(pid, &raw mut status, 0) };
    let exited = status & 0x7f == 0;
    let code = (status >> 8) & 0xff;
    if exited && code == 0 {
        println!("REPLAY-RESULT: not-reproduced a cleared configuration handle is refused with BadAPIArgument");
    } else if exited {
        println!("REPLAY-RESULT: reproduced a cleared (NULL) configuration handle was not refused with BadAPIArgument");
    } else {
        println!("REPLAY-RESULT: reproduced the call with a cleared (NULL) configuration handle crashed the process (signal {})", status & 0x7f);
    }
}
unsafe extern "C" {
    fn fork() -> i32;
    fn waitpid(pid: i32, status: *mut i32, options: i32) -> i32;
    fn _exit(code: i32) -> !;
}

#[test]
fn c_adapter() {
    let status = v_i64("status", 0) as i32;
    let count = v_u64("count", 0) as u32;
    let blen = (v_u64("blen", 4) as usize).min(8);
    static mut ST: i32 = 0;
    static mut CT: u32 = 0;
    extern "C" fn cb(_b: *const u8, _l: u32, _c: *mut c_void, o: *mut u32) -> i32 {
        unsafe {
            *o = CT;
            ST
        }
    }
    unsafe {
        ST = status;
        CT = count.min(blen as u32);
    }
    let r = catch_unwind(|| -> Option<String> {
        let mut w = CallbackOutput { write_callback: cb, flush_callback: f_cb, context: std::ptr::null_mut() };
        let buf = [1u8; 8];
        match std::io::Write::write(&mut w, &buf[..blen]) {
            Ok(n) if status == 0 && n == count.min(blen as u32) as usize => None,
            Err(_) if status != 0 => None,
            other => Some(format!("callback (status {status}, accepted {count}) -> write returned {other:?}")),
        }
    });
    report(r);
}

#[test]
fn c_close_refused() {
    // real interface: archive created by mla_archive_new, a file left open, then close
    let finalized = v_u64("finalized", 0) == 1;
    let r = catch_unwind(|| -> Option<String> {
        let mut cfg: MLAConfigHandle = null_mut();
        if mla_config_default_new(&raw mut cfg) as u64 != 0 {
            return Some("mla_config_default_new failed".to_string());
        }
        unsafe { &mut *cfg.cast::<ArchiveWriterConfig>() }.set_layers(Layers::EMPTY);
        extern "C" fn w(_b: *const u8, l: u32, _c: *mut c_void, o: *mut u32) -> i32 {
            unsafe { *o = l };
            0
        }
        let mut archive: MLAArchiveHandle = null_mut();
        if mla_archive_new(&raw mut cfg, Some(w), Some(f_cb), null_mut(), &raw mut archive) as u64 != 0 {
            return Some("mla_archive_new failed".to_string());
        }
        if finalized {
            // a writer that already is finalized behind a live handle (in-crate access)
            let wr = unsafe { &mut *archive.cast::<ArchiveWriter<CallbackOutput>>() };
            if wr.finalize().is_err() {
                return Some("finalize of an empty archive failed".to_string());
            }
        } else {
            let name = std::ffi::CString::new("f").unwrap();
            let mut fh: MLAArchiveFileHandle = null_mut();
            if mla_archive_file_new(archive, name.as_ptr(), &raw mut fh) as u64 != 0 {
                return Some("mla_archive_file_new failed".to_string());
            }
        }
        let s = mla_archive_close(&raw mut archive) as u64;
        if s == 0 {
            return Some("mla_archive_close reported success although it had to refuse".to_string());
        }
        if !archive.is_null() {
            return Some(format!("mla_archive_close failed with status {s:#x} and left the caller's handle set: the archive behind it is already released"));
        }
        None
    });
    report(r);
}
