// Native replay templates for key wrapping, secret freshness and recipient handling (real crates)
#![allow(dead_code, unused_imports, clippy::all)]
use super::*;
use crate::config::{ArchiveReaderConfig, ArchiveWriterConfig};
use rand::SeedableRng;
use rand_chacha::ChaChaRng;
use std::panic::{catch_unwind, AssertUnwindSafe};
fn v_u64(name: &str, default: u64) -> u64 {
    std::env::var(format!("VR_{name}")).ok().and_then(|s| s.parse::<u64>().ok()).unwrap_or(default)
}
fn report(r: Result<Option<String>, Box<dyn std::any::Any + Send>>) {
    match r {
        Ok(None) => println!("REPLAY-RESULT: not-reproduced real code agrees with the specification on these values"),
        Ok(Some(s)) => println!("REPLAY-RESULT: reproduced {s}"),
        Err(_) => println!("REPLAY-RESULT: reproduced real code panicked"),
    }
}
/// independent unwrap straight from the format description, with the aes-gcm crate
fn independent_unwrap(persist: &MultiRecipientPersistent, sk: &StaticSecret, idx: usize) -> Option<[u8; 32]> {
    use aes_gcm::{aead::Aead, Aes256Gcm, KeyInit as _};
    let shared = sk.diffie_hellman(&PublicKey::from(persist.public));
    let hk = Hkdf::<Sha256>::new(None, shared.as_bytes());
    let mut wk = [0u8; 32];
    hk.expand(b"KEY DERIVATION", &mut wk).ok()?;
    let mut ct = persist.encrypted_keys[idx].key.to_vec();
    ct.extend_from_slice(&persist.encrypted_keys[idx].tag);
    let pt = Aes256Gcm::new_from_slice(&wk).ok()?.decrypt(b"ECIES NONCE0".into(), &ct[..]).ok()?;
    pt.try_into().ok()
}
#[test]
fn ecc_wrap() {
    report(catch_unwind(|| -> Option<String> {
        let mut rng = ChaChaRng::seed_from_u64(7);
        let s0 = StaticSecret::from([11u8; 32]);
        let s1 = StaticSecret::from([22u8; 32]);
        let key = [0xABu8; 32];
        let p = store_key_for_multi_recipients(&[PublicKey::from(&s0), PublicKey::from(&s1)], &key, &mut rng).unwrap();
        if p.encrypted_keys.len() != 2 {
            return Some(format!("{} wrapped keys for 2 recipients", p.encrypted_keys.len()));
        }
        for (i, s) in [&s0, &s1].iter().enumerate() {
            match retrieve_key(&p, s) {
                Ok(Some(k)) if k == key => {}
                other => return Some(format!("recipient {i} cannot unwrap the archive key: {:?}", other.map(|o| o.is_some()))),
            }
            if independent_unwrap(&p, s, i) != Some(key) {
                return Some(format!("the entry wrapped for recipient {i} does not decode with X25519 + HKDF-SHA256('KEY DERIVATION') + AES-256-GCM('ECIES NONCE0') as documented"));
            }
        }
        let stranger = StaticSecret::from([33u8; 32]);
        if let Ok(Some(_)) = retrieve_key(&p, &stranger) {
            return Some("a key that is not a recipient's unwraps the archive key".to_string());
        }
        let p2 = store_key_for_multi_recipients(&[PublicKey::from(&s0)], &key, &mut ChaChaRng::from_os_rng()).unwrap();
        let p3 = store_key_for_multi_recipients(&[PublicKey::from(&s0)], &key, &mut ChaChaRng::from_os_rng()).unwrap();
        if p2.public == p3.public {
            return Some("two archives share their ephemeral public key".to_string());
        }
        None
    }));
}
#[test]
fn ecc_unwrap_forged() {
    // two entries genuinely wrapped for the candidate key, whose stored tags are then changed by the
    // 128-bit differences the solver chose (0 = left intact)
    let d = [v_u64("d0lo", 1), v_u64("d0hi", 0), v_u64("d1lo", 0), v_u64("d1hi", 1 << 63)];
    report(catch_unwind(|| -> Option<String> {
        let sk = StaticSecret::from([5u8; 32]);
        let key = [0x5Au8; 32];
        let mut p = store_key_for_multi_recipients(&[PublicKey::from(&sk), PublicKey::from(&sk)], &key, &mut ChaChaRng::seed_from_u64(3)).unwrap();
        for e in 0..2 {
            let (l, h) = (d[2 * e].to_le_bytes(), d[2 * e + 1].to_le_bytes());
            for i in 0..8 {
                p.encrypted_keys[e].tag[i] ^= l[i];
                p.encrypted_keys[e].tag[8 + i] ^= h[i];
            }
        }
        let intact = (d[0] == 0 && d[1] == 0) || (d[2] == 0 && d[3] == 0);
        match retrieve_key(&p, &sk) {
            Ok(None) if !intact => {}
            Ok(Some(k)) if intact && k == key => {}
            Ok(None) => return Some("an entry whose tag verifies was ignored".to_string()),
            Ok(Some(_)) if intact => return Some("wrong key unwrapped".to_string()),
            Ok(Some(_)) => return Some(format!("retrieve_key returned a key although both stored tags were altered (differences {:#x}/{:#x} and {:#x}/{:#x})", d[0], d[1], d[2], d[3])),
            Err(e) => return Some(format!("retrieve_key failed: {e:?}")),
        }
        // entries that never were wrapped for this key
        let q = MultiRecipientPersistent {
            public: [9u8; 32],
            encrypted_keys: vec![KeyAndTag { key: [1u8; 32], tag: [2u8; 16] }, KeyAndTag { key: [3u8; 32], tag: [0u8; 16] }],
        };
        match retrieve_key(&q, &sk) {
            Ok(None) => None,
            Ok(Some(_)) => Some("retrieve_key returned a key for entries whose tags do not verify".to_string()),
            Err(e) => Some(format!("retrieve_key failed: {e:?}")),
        }
    }));
}
#[test]
fn cfg_fresh() {
    report(catch_unwind(|| -> Option<String> {
        let a = ArchiveWriterConfig::new();
        let b = ArchiveWriterConfig::new();
        let c = ArchiveWriterConfig::default();
        if a.encryption_key() == b.encryption_key() || a.encryption_key() == c.encryption_key() {
            return Some("two configurations created in a row share their symmetric key".to_string());
        }
        if a.encryption_nonce() == b.encryption_nonce() {
            return Some("two configurations created in a row share their archive nonce".to_string());
        }
        if a.encryption_key().iter().all(|x| *x == a.encryption_key()[0]) {
            return Some("the symmetric key is a constant pattern".to_string());
        }
        None
    }));
}
#[test]
fn cfg_recipients_and_header() {
    report(catch_unwind(|| -> Option<String> {
        // recipients handed over in two calls: each of them opens the archive
        let s0 = StaticSecret::from([0x31u8; 32]);
        let s1 = StaticSecret::from([0x32u8; 32]);
        let mut wcfg = ArchiveWriterConfig::new();
        wcfg.set_layers(crate::Layers::ENCRYPT);
        wcfg.add_public_keys(&[PublicKey::from(&s0)]);
        wcfg.add_public_keys(&[PublicKey::from(&s1)]);
        // two headers from one configuration: the ephemeral key is drawn afresh each time
        let h1 = wcfg.encrypt.to_persistent().ok()?;
        let h2 = wcfg.encrypt.to_persistent().ok()?;
        if h1.multi_recipient.public == h2.multi_recipient.public {
            return Some("two headers produced from one configuration carry the same ephemeral public key: it is derived from something the configuration already holds, not from fresh OS entropy".to_string());
        }
        let mut w = crate::ArchiveWriter::from_config(Vec::new(), wcfg).unwrap();
        w.add_file("f", 3, &b"abc"[..]).unwrap();
        w.finalize().unwrap();
        let bytes = w.into_raw();
        for (i, s) in [s0, s1].into_iter().enumerate() {
            let mut rcfg = ArchiveReaderConfig::new();
            rcfg.add_private_keys(&[s]);
            if crate::ArchiveReader::from_config(std::io::Cursor::new(bytes.clone()), rcfg).is_err() {
                return Some(format!("recipient #{i} of 2 (added in separate add_public_keys calls) cannot open the archive"));
            }
        }
        None
    }));
}
#[test]
fn recipients() {
    let nkeys = (v_u64("nkeys", 3) as usize).min(3);
    let outcome = [v_u64("o0", 0), v_u64("o1", 0), v_u64("o2", 1)];
    report(catch_unwind(|| -> Option<String> {
        // archive encrypted for one recipient; candidate i is that recipient's key iff o_i == 1
        let right = StaticSecret::from([0x42u8; 32]);
        let mut wcfg = ArchiveWriterConfig::new();
        wcfg.set_layers(crate::Layers::ENCRYPT);
        wcfg.add_public_keys(&[PublicKey::from(&right)]);
        let mut w = crate::ArchiveWriter::from_config(Vec::new(), wcfg).unwrap();
        w.add_file("f", 3, &b"abc"[..]).unwrap();
        w.finalize().unwrap();
        let bytes = w.into_raw();
        let cands: Vec<StaticSecret> = (0..nkeys).map(|i| if outcome[i] == 1 { right.clone() } else { StaticSecret::from([i as u8 + 1; 32]) }).collect();
        let should_open = (0..nkeys).any(|i| outcome[i] == 1);
        let mut rcfg = ArchiveReaderConfig::new();
        rcfg.add_private_keys(&cands);
        let res = crate::ArchiveReader::from_config(std::io::Cursor::new(bytes), rcfg);
        match (res.is_ok(), should_open) {
            (true, true) | (false, false) => None,
            (false, true) => Some(format!("archive not opened although candidate list {outcome:?} (first {nkeys}) contains the recipient's key")),
            (true, false) => Some("archive opened without any recipient key".to_string()),
        }
    }));
}
