// Harness module appended to the real mla/src/crypto/aesgcm.rs (child module: sees private
// fields of AesGcm256).
#![allow(dead_code, unused_imports)]
use super::*;
extern crate alloc;
use crate::verif_common::*;
use crate::{exclude_known, is_known, replay_cap};

/// Loop-free construction of the *real* `AesGcm256` struct through the model-crate constructors;
/// same field values as `AesGcm256::new(key, nonce, b"")` (checked by `h_gcm_new_equiv`).
pub(crate) fn model_build(key: &Key, nonce: &Nonce) -> AesGcm256 {
    let aes = Aes256::model_new(key);
    let mut cb = [0u8; 16];
    cb[..12].copy_from_slice(nonce);
    cb[15] = 1;
    let iv = u128::from_be_bytes(cb);
    let h = aes.enc(0);
    let mut cipher = Aes256Ctr::model_new(aes, iv);
    cipher.seek(BLOCK_SIZE as u64);
    AesGcm256 {
        cipher,
        ghash: GHash::model_new(h),
        associated_data_bits_len: 0,
        current_block: Vec::new(),
        bytes_encrypted: 0,
    }
}

/// ghost accessors used by harnesses of other modules
pub(crate) fn ghost_iv(c: &AesGcm256) -> u128 {
    c.cipher.iv
}
pub(crate) fn ghost_key(c: &AesGcm256) -> (u128, u128) {
    (c.cipher.c.k0, c.cipher.c.k1)
}
pub(crate) fn ghost_pos(c: &AesGcm256) -> u64 {
    c.cipher.pos
}
pub(crate) fn ghost_ghash(c: &AesGcm256) -> (u128, u128) {
    (c.ghash.h, c.ghash.y)
}

// ------------------------------------------------------------------------------------------
// H-GCM-*: the real incremental GCM composition (aesgcm.rs) over the model primitives (C06)
// ------------------------------------------------------------------------------------------
/// reference one-shot GCM composition written from the standard (NIST SP 800-38D), over the same
/// model block function / accumulator: J0 = nonce || 0x00000001, data keystream from J0+1,
/// GHASH over zero-padded ciphertext then [len(aad)]_64 || [len(ct)]_64 (bits), tag = GHASH ^ E(J0)
fn reference_gcm(key: &Key, nonce: &Nonce, msg: &[u8; 24], len: usize) -> ([u8; 24], [u8; 16]) {
    let aes = Aes256::model_new(key);
    let mut j0 = [0u8; 16];
    j0[..12].copy_from_slice(nonce);
    j0[15] = 1;
    let j0 = u128::from_be_bytes(j0);
    let h = aes.enc(0);
    let mut ct = [0u8; 24];
    let mut i = 0;
    while i < len {
        let blk = aes.enc(j0.wrapping_add(1 + (i / 16) as u128));
        ct[i] = msg[i] ^ (blk >> (8 * (15 - (i % 16)))) as u8;
        i += 1;
    }
    let mut g = GHash::model_new(h);
    let mut off = 0;
    while off < len {
        let n = core::cmp::min(16, len - off);
        let mut b = [0u8; 16];
        b[..n].copy_from_slice(&ct[off..off + n]);
        g.absorb(u128::from_be_bytes(b));
        off += n;
    }
    g.absorb(((len as u128) * 8) & 0xFFFF_FFFF_FFFF_FFFF);
    let tag = (g.y ^ aes.enc(j0)).to_be_bytes();
    (ct, tag)
}

//@ props: C06
//@ functions: crypto::aesgcm::AesGcm256::new (real body); model_build (harness constructor used by the reader/writer harnesses)
//@ bounds: any 32-byte key, any 12-byte nonce, empty associated data
//@ stubs: alloc::fmt::format
//@ outside: real AES / GHASH values (covered by the suite's NIST vectors); non-empty associated data (never used by MLA)
//@ replay: verif_replay_aesgcm::gcm_vectors
#[kani::proof]
#[kani::unwind(34)]
#[kani::stub(alloc::fmt::format, nofmt)]
fn h_gcm_new_equiv() {
    let key: Key = kani::any();
    let nonce: Nonce = kani::any();
    let a = match AesGcm256::new(&key, &nonce, b"") {
        Ok(a) => a,
        Err(e) => {
            core::mem::forget(e);
            assert!(false, "cipher construction fails");
            return;
        }
    };
    let b = model_build(&key, &nonce);
    let mut j0 = [0u8; 16];
    j0[..12].copy_from_slice(&nonce);
    j0[15] = 1;
    assert!(a.cipher.iv == u128::from_be_bytes(j0), "initial counter block J0 = nonce || 0x00000001");
    assert!(a.cipher.pos == 16, "data keystream starts at block J0+1");
    assert!(a.cipher.c.k0 == b.cipher.c.k0 && a.cipher.c.k1 == b.cipher.c.k1 && a.cipher.iv == b.cipher.iv && a.cipher.pos == b.cipher.pos);
    assert!(a.ghash.h == a.cipher.c.enc(0) && a.ghash.y == 0, "hash key H = E(0^128), accumulator starts at 0");
    assert!(a.ghash.h == b.ghash.h && a.ghash.y == b.ghash.y);
    assert!(a.associated_data_bits_len == 0 && a.bytes_encrypted == 0 && a.current_block.is_empty());
    core::mem::forget(a);
    core::mem::forget(b);
}

//@ props: C06
//@ functions: crypto::aesgcm::AesGcm256::encrypt (unaligned pieces, pending block handling); AesGcm256::into_tag; AesGcm256::decrypt
//@ bounds: CONCRETE message length 24 cut at 5 and 20 into three encrypt calls (one of 9 enumerated splits: block-aligned, straddling the 16-byte boundary, empty pieces, single byte, empty message); symbolic message bytes, key, nonce
//@ stubs: AES block function / GHASH multiply are the model primitives (the composition, not the primitives, is what is decided); alloc::fmt::format
//@ outside: other lengths/splits; real AES/GHASH values (suite's NIST vectors)
//@ replay: verif_replay_aesgcm::gcm_split len=24 c1=5 c2=20
#[kani::proof]
#[kani::unwind(26)]
#[kani::stub(alloc::fmt::format, nofmt)]
fn h_gcm_split_24_5_20() {
    gcm_split_body(24, 5, 20);
}

//@ props: C06
//@ functions: crypto::aesgcm::AesGcm256::encrypt (unaligned pieces, pending block handling); AesGcm256::into_tag; AesGcm256::decrypt
//@ bounds: CONCRETE message length 24 cut at 16 and 16 into three encrypt calls (one of 9 enumerated splits: block-aligned, straddling the 16-byte boundary, empty pieces, single byte, empty message); symbolic message bytes, key, nonce
//@ stubs: AES block function / GHASH multiply are the model primitives (the composition, not the primitives, is what is decided); alloc::fmt::format
//@ outside: other lengths/splits; real AES/GHASH values (suite's NIST vectors)
//@ replay: verif_replay_aesgcm::gcm_split len=24 c1=16 c2=16
#[kani::proof]
#[kani::unwind(26)]
#[kani::stub(alloc::fmt::format, nofmt)]
fn h_gcm_split_24_16_16() {
    gcm_split_body(24, 16, 16);
}

//@ props: C06
//@ functions: crypto::aesgcm::AesGcm256::encrypt (unaligned pieces, pending block handling); AesGcm256::into_tag; AesGcm256::decrypt
//@ bounds: CONCRETE message length 24 cut at 0 and 24 into three encrypt calls (one of 9 enumerated splits: block-aligned, straddling the 16-byte boundary, empty pieces, single byte, empty message); symbolic message bytes, key, nonce
//@ stubs: AES block function / GHASH multiply are the model primitives (the composition, not the primitives, is what is decided); alloc::fmt::format
//@ outside: other lengths/splits; real AES/GHASH values (suite's NIST vectors)
//@ replay: verif_replay_aesgcm::gcm_split len=24 c1=0 c2=24
#[kani::proof]
#[kani::unwind(26)]
#[kani::stub(alloc::fmt::format, nofmt)]
fn h_gcm_split_24_0_24() {
    gcm_split_body(24, 0, 24);
}

//@ props: C06
//@ functions: crypto::aesgcm::AesGcm256::encrypt (unaligned pieces, pending block handling); AesGcm256::into_tag; AesGcm256::decrypt
//@ bounds: CONCRETE message length 24 cut at 15 and 17 into three encrypt calls (one of 9 enumerated splits: block-aligned, straddling the 16-byte boundary, empty pieces, single byte, empty message); symbolic message bytes, key, nonce
//@ stubs: AES block function / GHASH multiply are the model primitives (the composition, not the primitives, is what is decided); alloc::fmt::format
//@ outside: other lengths/splits; real AES/GHASH values (suite's NIST vectors)
//@ replay: verif_replay_aesgcm::gcm_split len=24 c1=15 c2=17
#[kani::proof]
#[kani::unwind(26)]
#[kani::stub(alloc::fmt::format, nofmt)]
fn h_gcm_split_24_15_17() {
    gcm_split_body(24, 15, 17);
}

//@ props: C06
//@ functions: crypto::aesgcm::AesGcm256::encrypt (unaligned pieces, pending block handling); AesGcm256::into_tag; AesGcm256::decrypt
//@ bounds: CONCRETE message length 17 cut at 1 and 16 into three encrypt calls (one of 9 enumerated splits: block-aligned, straddling the 16-byte boundary, empty pieces, single byte, empty message); symbolic message bytes, key, nonce
//@ stubs: AES block function / GHASH multiply are the model primitives (the composition, not the primitives, is what is decided); alloc::fmt::format
//@ outside: other lengths/splits; real AES/GHASH values (suite's NIST vectors)
//@ replay: verif_replay_aesgcm::gcm_split len=17 c1=1 c2=16
#[kani::proof]
#[kani::unwind(26)]
#[kani::stub(alloc::fmt::format, nofmt)]
fn h_gcm_split_17_1_16() {
    gcm_split_body(17, 1, 16);
}

//@ props: C06
//@ functions: crypto::aesgcm::AesGcm256::encrypt (unaligned pieces, pending block handling); AesGcm256::into_tag; AesGcm256::decrypt
//@ bounds: CONCRETE message length 16 cut at 7 and 9 into three encrypt calls (one of 9 enumerated splits: block-aligned, straddling the 16-byte boundary, empty pieces, single byte, empty message); symbolic message bytes, key, nonce
//@ stubs: AES block function / GHASH multiply are the model primitives (the composition, not the primitives, is what is decided); alloc::fmt::format
//@ outside: other lengths/splits; real AES/GHASH values (suite's NIST vectors)
//@ replay: verif_replay_aesgcm::gcm_split len=16 c1=7 c2=9
#[kani::proof]
#[kani::unwind(26)]
#[kani::stub(alloc::fmt::format, nofmt)]
fn h_gcm_split_16_7_9() {
    gcm_split_body(16, 7, 9);
}

//@ props: C06
//@ functions: crypto::aesgcm::AesGcm256::encrypt (unaligned pieces, pending block handling); AesGcm256::into_tag; AesGcm256::decrypt
//@ bounds: CONCRETE message length 20 cut at 3 and 4 into three encrypt calls (one of 9 enumerated splits: block-aligned, straddling the 16-byte boundary, empty pieces, single byte, empty message); symbolic message bytes, key, nonce
//@ stubs: AES block function / GHASH multiply are the model primitives (the composition, not the primitives, is what is decided); alloc::fmt::format
//@ outside: other lengths/splits; real AES/GHASH values (suite's NIST vectors)
//@ replay: verif_replay_aesgcm::gcm_split len=20 c1=3 c2=4
#[kani::proof]
#[kani::unwind(26)]
#[kani::stub(alloc::fmt::format, nofmt)]
fn h_gcm_split_20_3_4() {
    gcm_split_body(20, 3, 4);
}

//@ props: C06
//@ functions: crypto::aesgcm::AesGcm256::encrypt (unaligned pieces, pending block handling); AesGcm256::into_tag; AesGcm256::decrypt
//@ bounds: CONCRETE message length 1 cut at 0 and 1 into three encrypt calls (one of 9 enumerated splits: block-aligned, straddling the 16-byte boundary, empty pieces, single byte, empty message); symbolic message bytes, key, nonce
//@ stubs: AES block function / GHASH multiply are the model primitives (the composition, not the primitives, is what is decided); alloc::fmt::format
//@ outside: other lengths/splits; real AES/GHASH values (suite's NIST vectors)
//@ replay: verif_replay_aesgcm::gcm_split len=1 c1=0 c2=1
#[kani::proof]
#[kani::unwind(26)]
#[kani::stub(alloc::fmt::format, nofmt)]
fn h_gcm_split_1_0_1() {
    gcm_split_body(1, 0, 1);
}

//@ props: C06
//@ functions: crypto::aesgcm::AesGcm256::encrypt (unaligned pieces, pending block handling); AesGcm256::into_tag; AesGcm256::decrypt
//@ bounds: CONCRETE message length 0 cut at 0 and 0 into three encrypt calls (one of 9 enumerated splits: block-aligned, straddling the 16-byte boundary, empty pieces, single byte, empty message); symbolic message bytes, key, nonce
//@ stubs: AES block function / GHASH multiply are the model primitives (the composition, not the primitives, is what is decided); alloc::fmt::format
//@ outside: other lengths/splits; real AES/GHASH values (suite's NIST vectors)
//@ replay: verif_replay_aesgcm::gcm_split len=0 c1=0 c2=0
#[kani::proof]
#[kani::unwind(26)]
#[kani::stub(alloc::fmt::format, nofmt)]
fn h_gcm_split_0_0_0() {
    gcm_split_body(0, 0, 0);
}

//@ props: C06
//@ tier: thorough
//@ functions: crypto::aesgcm::AesGcm256::encrypt (unaligned pieces, pending block handling); AesGcm256::into_tag; AesGcm256::decrypt
//@ bounds: CONCRETE message length 2 cut at 0 and 0 (thorough tier: 103 enumerated splits over lengths 0,1,2,15,16,17,20,23,24 incl. every block-boundary alignment); symbolic message bytes, key, nonce
//@ stubs: AES block function / GHASH multiply are the model primitives; alloc::fmt::format
//@ outside: other lengths/splits; real AES/GHASH values (suite's NIST vectors)
//@ replay: verif_replay_aesgcm::gcm_split len=2 c1=0 c2=0
#[kani::proof]
#[kani::unwind(26)]
#[kani::stub(alloc::fmt::format, nofmt)]
fn h_gcm_split_2_0_0() {
    gcm_split_body(2, 0, 0);
}

//@ props: C06
//@ tier: thorough
//@ functions: crypto::aesgcm::AesGcm256::encrypt (unaligned pieces, pending block handling); AesGcm256::into_tag; AesGcm256::decrypt
//@ bounds: CONCRETE message length 2 cut at 0 and 1 (thorough tier: 103 enumerated splits over lengths 0,1,2,15,16,17,20,23,24 incl. every block-boundary alignment); symbolic message bytes, key, nonce
//@ stubs: AES block function / GHASH multiply are the model primitives; alloc::fmt::format
//@ outside: other lengths/splits; real AES/GHASH values (suite's NIST vectors)
//@ replay: verif_replay_aesgcm::gcm_split len=2 c1=0 c2=1
#[kani::proof]
#[kani::unwind(26)]
#[kani::stub(alloc::fmt::format, nofmt)]
fn h_gcm_split_2_0_1() {
    gcm_split_body(2, 0, 1);
}

//@ props: C06
//@ tier: thorough
//@ functions: crypto::aesgcm::AesGcm256::encrypt (unaligned pieces, pending block handling); AesGcm256::into_tag; AesGcm256::decrypt
//@ bounds: CONCRETE message length 2 cut at 0 and 2 (thorough tier: 103 enumerated splits over lengths 0,1,2,15,16,17,20,23,24 incl. every block-boundary alignment); symbolic message bytes, key, nonce
//@ stubs: AES block function / GHASH multiply are the model primitives; alloc::fmt::format
//@ outside: other lengths/splits; real AES/GHASH values (suite's NIST vectors)
//@ replay: verif_replay_aesgcm::gcm_split len=2 c1=0 c2=2
#[kani::proof]
#[kani::unwind(26)]
#[kani::stub(alloc::fmt::format, nofmt)]
fn h_gcm_split_2_0_2() {
    gcm_split_body(2, 0, 2);
}

//@ props: C06
//@ tier: thorough
//@ functions: crypto::aesgcm::AesGcm256::encrypt (unaligned pieces, pending block handling); AesGcm256::into_tag; AesGcm256::decrypt
//@ bounds: CONCRETE message length 2 cut at 1 and 1 (thorough tier: 103 enumerated splits over lengths 0,1,2,15,16,17,20,23,24 incl. every block-boundary alignment); symbolic message bytes, key, nonce
//@ stubs: AES block function / GHASH multiply are the model primitives; alloc::fmt::format
//@ outside: other lengths/splits; real AES/GHASH values (suite's NIST vectors)
//@ replay: verif_replay_aesgcm::gcm_split len=2 c1=1 c2=1
#[kani::proof]
#[kani::unwind(26)]
#[kani::stub(alloc::fmt::format, nofmt)]
fn h_gcm_split_2_1_1() {
    gcm_split_body(2, 1, 1);
}

//@ props: C06
//@ tier: thorough
//@ functions: crypto::aesgcm::AesGcm256::encrypt (unaligned pieces, pending block handling); AesGcm256::into_tag; AesGcm256::decrypt
//@ bounds: CONCRETE message length 2 cut at 1 and 2 (thorough tier: 103 enumerated splits over lengths 0,1,2,15,16,17,20,23,24 incl. every block-boundary alignment); symbolic message bytes, key, nonce
//@ stubs: AES block function / GHASH multiply are the model primitives; alloc::fmt::format
//@ outside: other lengths/splits; real AES/GHASH values (suite's NIST vectors)
//@ replay: verif_replay_aesgcm::gcm_split len=2 c1=1 c2=2
#[kani::proof]
#[kani::unwind(26)]
#[kani::stub(alloc::fmt::format, nofmt)]
fn h_gcm_split_2_1_2() {
    gcm_split_body(2, 1, 2);
}

//@ props: C06
//@ tier: thorough
//@ functions: crypto::aesgcm::AesGcm256::encrypt (unaligned pieces, pending block handling); AesGcm256::into_tag; AesGcm256::decrypt
//@ bounds: CONCRETE message length 2 cut at 2 and 2 (thorough tier: 103 enumerated splits over lengths 0,1,2,15,16,17,20,23,24 incl. every block-boundary alignment); symbolic message bytes, key, nonce
//@ stubs: AES block function / GHASH multiply are the model primitives; alloc::fmt::format
//@ outside: other lengths/splits; real AES/GHASH values (suite's NIST vectors)
//@ replay: verif_replay_aesgcm::gcm_split len=2 c1=2 c2=2
#[kani::proof]
#[kani::unwind(26)]
#[kani::stub(alloc::fmt::format, nofmt)]
fn h_gcm_split_2_2_2() {
    gcm_split_body(2, 2, 2);
}

//@ props: C06
//@ tier: thorough
//@ functions: crypto::aesgcm::AesGcm256::encrypt (unaligned pieces, pending block handling); AesGcm256::into_tag; AesGcm256::decrypt
//@ bounds: CONCRETE message length 15 cut at 0 and 0 (thorough tier: 103 enumerated splits over lengths 0,1,2,15,16,17,20,23,24 incl. every block-boundary alignment); symbolic message bytes, key, nonce
//@ stubs: AES block function / GHASH multiply are the model primitives; alloc::fmt::format
//@ outside: other lengths/splits; real AES/GHASH values (suite's NIST vectors)
//@ replay: verif_replay_aesgcm::gcm_split len=15 c1=0 c2=0
#[kani::proof]
#[kani::unwind(26)]
#[kani::stub(alloc::fmt::format, nofmt)]
fn h_gcm_split_15_0_0() {
    gcm_split_body(15, 0, 0);
}

//@ props: C06
//@ tier: thorough
//@ functions: crypto::aesgcm::AesGcm256::encrypt (unaligned pieces, pending block handling); AesGcm256::into_tag; AesGcm256::decrypt
//@ bounds: CONCRETE message length 15 cut at 0 and 1 (thorough tier: 103 enumerated splits over lengths 0,1,2,15,16,17,20,23,24 incl. every block-boundary alignment); symbolic message bytes, key, nonce
//@ stubs: AES block function / GHASH multiply are the model primitives; alloc::fmt::format
//@ outside: other lengths/splits; real AES/GHASH values (suite's NIST vectors)
//@ replay: verif_replay_aesgcm::gcm_split len=15 c1=0 c2=1
#[kani::proof]
#[kani::unwind(26)]
#[kani::stub(alloc::fmt::format, nofmt)]
fn h_gcm_split_15_0_1() {
    gcm_split_body(15, 0, 1);
}

//@ props: C06
//@ tier: thorough
//@ functions: crypto::aesgcm::AesGcm256::encrypt (unaligned pieces, pending block handling); AesGcm256::into_tag; AesGcm256::decrypt
//@ bounds: CONCRETE message length 15 cut at 0 and 15 (thorough tier: 103 enumerated splits over lengths 0,1,2,15,16,17,20,23,24 incl. every block-boundary alignment); symbolic message bytes, key, nonce
//@ stubs: AES block function / GHASH multiply are the model primitives; alloc::fmt::format
//@ outside: other lengths/splits; real AES/GHASH values (suite's NIST vectors)
//@ replay: verif_replay_aesgcm::gcm_split len=15 c1=0 c2=15
#[kani::proof]
#[kani::unwind(26)]
#[kani::stub(alloc::fmt::format, nofmt)]
fn h_gcm_split_15_0_15() {
    gcm_split_body(15, 0, 15);
}

//@ props: C06
//@ tier: thorough
//@ functions: crypto::aesgcm::AesGcm256::encrypt (unaligned pieces, pending block handling); AesGcm256::into_tag; AesGcm256::decrypt
//@ bounds: CONCRETE message length 15 cut at 1 and 1 (thorough tier: 103 enumerated splits over lengths 0,1,2,15,16,17,20,23,24 incl. every block-boundary alignment); symbolic message bytes, key, nonce
//@ stubs: AES block function / GHASH multiply are the model primitives; alloc::fmt::format
//@ outside: other lengths/splits; real AES/GHASH values (suite's NIST vectors)
//@ replay: verif_replay_aesgcm::gcm_split len=15 c1=1 c2=1
#[kani::proof]
#[kani::unwind(26)]
#[kani::stub(alloc::fmt::format, nofmt)]
fn h_gcm_split_15_1_1() {
    gcm_split_body(15, 1, 1);
}

//@ props: C06
//@ tier: thorough
//@ functions: crypto::aesgcm::AesGcm256::encrypt (unaligned pieces, pending block handling); AesGcm256::into_tag; AesGcm256::decrypt
//@ bounds: CONCRETE message length 15 cut at 1 and 2 (thorough tier: 103 enumerated splits over lengths 0,1,2,15,16,17,20,23,24 incl. every block-boundary alignment); symbolic message bytes, key, nonce
//@ stubs: AES block function / GHASH multiply are the model primitives; alloc::fmt::format
//@ outside: other lengths/splits; real AES/GHASH values (suite's NIST vectors)
//@ replay: verif_replay_aesgcm::gcm_split len=15 c1=1 c2=2
#[kani::proof]
#[kani::unwind(26)]
#[kani::stub(alloc::fmt::format, nofmt)]
fn h_gcm_split_15_1_2() {
    gcm_split_body(15, 1, 2);
}

//@ props: C06
//@ tier: thorough
//@ functions: crypto::aesgcm::AesGcm256::encrypt (unaligned pieces, pending block handling); AesGcm256::into_tag; AesGcm256::decrypt
//@ bounds: CONCRETE message length 15 cut at 1 and 15 (thorough tier: 103 enumerated splits over lengths 0,1,2,15,16,17,20,23,24 incl. every block-boundary alignment); symbolic message bytes, key, nonce
//@ stubs: AES block function / GHASH multiply are the model primitives; alloc::fmt::format
//@ outside: other lengths/splits; real AES/GHASH values (suite's NIST vectors)
//@ replay: verif_replay_aesgcm::gcm_split len=15 c1=1 c2=15
#[kani::proof]
#[kani::unwind(26)]
#[kani::stub(alloc::fmt::format, nofmt)]
fn h_gcm_split_15_1_15() {
    gcm_split_body(15, 1, 15);
}

//@ props: C06
//@ tier: thorough
//@ functions: crypto::aesgcm::AesGcm256::encrypt (unaligned pieces, pending block handling); AesGcm256::into_tag; AesGcm256::decrypt
//@ bounds: CONCRETE message length 15 cut at 7 and 7 (thorough tier: 103 enumerated splits over lengths 0,1,2,15,16,17,20,23,24 incl. every block-boundary alignment); symbolic message bytes, key, nonce
//@ stubs: AES block function / GHASH multiply are the model primitives; alloc::fmt::format
//@ outside: other lengths/splits; real AES/GHASH values (suite's NIST vectors)
//@ replay: verif_replay_aesgcm::gcm_split len=15 c1=7 c2=7
#[kani::proof]
#[kani::unwind(26)]
#[kani::stub(alloc::fmt::format, nofmt)]
fn h_gcm_split_15_7_7() {
    gcm_split_body(15, 7, 7);
}

//@ props: C06
//@ tier: thorough
//@ functions: crypto::aesgcm::AesGcm256::encrypt (unaligned pieces, pending block handling); AesGcm256::into_tag; AesGcm256::decrypt
//@ bounds: CONCRETE message length 15 cut at 7 and 8 (thorough tier: 103 enumerated splits over lengths 0,1,2,15,16,17,20,23,24 incl. every block-boundary alignment); symbolic message bytes, key, nonce
//@ stubs: AES block function / GHASH multiply are the model primitives; alloc::fmt::format
//@ outside: other lengths/splits; real AES/GHASH values (suite's NIST vectors)
//@ replay: verif_replay_aesgcm::gcm_split len=15 c1=7 c2=8
#[kani::proof]
#[kani::unwind(26)]
#[kani::stub(alloc::fmt::format, nofmt)]
fn h_gcm_split_15_7_8() {
    gcm_split_body(15, 7, 8);
}

//@ props: C06
//@ tier: thorough
//@ functions: crypto::aesgcm::AesGcm256::encrypt (unaligned pieces, pending block handling); AesGcm256::into_tag; AesGcm256::decrypt
//@ bounds: CONCRETE message length 15 cut at 7 and 15 (thorough tier: 103 enumerated splits over lengths 0,1,2,15,16,17,20,23,24 incl. every block-boundary alignment); symbolic message bytes, key, nonce
//@ stubs: AES block function / GHASH multiply are the model primitives; alloc::fmt::format
//@ outside: other lengths/splits; real AES/GHASH values (suite's NIST vectors)
//@ replay: verif_replay_aesgcm::gcm_split len=15 c1=7 c2=15
#[kani::proof]
#[kani::unwind(26)]
#[kani::stub(alloc::fmt::format, nofmt)]
fn h_gcm_split_15_7_15() {
    gcm_split_body(15, 7, 15);
}

//@ props: C06
//@ tier: thorough
//@ functions: crypto::aesgcm::AesGcm256::encrypt (unaligned pieces, pending block handling); AesGcm256::into_tag; AesGcm256::decrypt
//@ bounds: CONCRETE message length 15 cut at 14 and 14 (thorough tier: 103 enumerated splits over lengths 0,1,2,15,16,17,20,23,24 incl. every block-boundary alignment); symbolic message bytes, key, nonce
//@ stubs: AES block function / GHASH multiply are the model primitives; alloc::fmt::format
//@ outside: other lengths/splits; real AES/GHASH values (suite's NIST vectors)
//@ replay: verif_replay_aesgcm::gcm_split len=15 c1=14 c2=14
#[kani::proof]
#[kani::unwind(26)]
#[kani::stub(alloc::fmt::format, nofmt)]
fn h_gcm_split_15_14_14() {
    gcm_split_body(15, 14, 14);
}

//@ props: C06
//@ tier: thorough
//@ functions: crypto::aesgcm::AesGcm256::encrypt (unaligned pieces, pending block handling); AesGcm256::into_tag; AesGcm256::decrypt
//@ bounds: CONCRETE message length 15 cut at 14 and 15 (thorough tier: 103 enumerated splits over lengths 0,1,2,15,16,17,20,23,24 incl. every block-boundary alignment); symbolic message bytes, key, nonce
//@ stubs: AES block function / GHASH multiply are the model primitives; alloc::fmt::format
//@ outside: other lengths/splits; real AES/GHASH values (suite's NIST vectors)
//@ replay: verif_replay_aesgcm::gcm_split len=15 c1=14 c2=15
#[kani::proof]
#[kani::unwind(26)]
#[kani::stub(alloc::fmt::format, nofmt)]
fn h_gcm_split_15_14_15() {
    gcm_split_body(15, 14, 15);
}

//@ props: C06
//@ tier: thorough
//@ functions: crypto::aesgcm::AesGcm256::encrypt (unaligned pieces, pending block handling); AesGcm256::into_tag; AesGcm256::decrypt
//@ bounds: CONCRETE message length 15 cut at 15 and 15 (thorough tier: 103 enumerated splits over lengths 0,1,2,15,16,17,20,23,24 incl. every block-boundary alignment); symbolic message bytes, key, nonce
//@ stubs: AES block function / GHASH multiply are the model primitives; alloc::fmt::format
//@ outside: other lengths/splits; real AES/GHASH values (suite's NIST vectors)
//@ replay: verif_replay_aesgcm::gcm_split len=15 c1=15 c2=15
#[kani::proof]
#[kani::unwind(26)]
#[kani::stub(alloc::fmt::format, nofmt)]
fn h_gcm_split_15_15_15() {
    gcm_split_body(15, 15, 15);
}

//@ props: C06
//@ tier: thorough
//@ functions: crypto::aesgcm::AesGcm256::encrypt (unaligned pieces, pending block handling); AesGcm256::into_tag; AesGcm256::decrypt
//@ bounds: CONCRETE message length 16 cut at 0 and 0 (thorough tier: 103 enumerated splits over lengths 0,1,2,15,16,17,20,23,24 incl. every block-boundary alignment); symbolic message bytes, key, nonce
//@ stubs: AES block function / GHASH multiply are the model primitives; alloc::fmt::format
//@ outside: other lengths/splits; real AES/GHASH values (suite's NIST vectors)
//@ replay: verif_replay_aesgcm::gcm_split len=16 c1=0 c2=0
#[kani::proof]
#[kani::unwind(26)]
#[kani::stub(alloc::fmt::format, nofmt)]
fn h_gcm_split_16_0_0() {
    gcm_split_body(16, 0, 0);
}

//@ props: C06
//@ tier: thorough
//@ functions: crypto::aesgcm::AesGcm256::encrypt (unaligned pieces, pending block handling); AesGcm256::into_tag; AesGcm256::decrypt
//@ bounds: CONCRETE message length 16 cut at 0 and 1 (thorough tier: 103 enumerated splits over lengths 0,1,2,15,16,17,20,23,24 incl. every block-boundary alignment); symbolic message bytes, key, nonce
//@ stubs: AES block function / GHASH multiply are the model primitives; alloc::fmt::format
//@ outside: other lengths/splits; real AES/GHASH values (suite's NIST vectors)
//@ replay: verif_replay_aesgcm::gcm_split len=16 c1=0 c2=1
#[kani::proof]
#[kani::unwind(26)]
#[kani::stub(alloc::fmt::format, nofmt)]
fn h_gcm_split_16_0_1() {
    gcm_split_body(16, 0, 1);
}

//@ props: C06
//@ tier: thorough
//@ functions: crypto::aesgcm::AesGcm256::encrypt (unaligned pieces, pending block handling); AesGcm256::into_tag; AesGcm256::decrypt
//@ bounds: CONCRETE message length 16 cut at 0 and 16 (thorough tier: 103 enumerated splits over lengths 0,1,2,15,16,17,20,23,24 incl. every block-boundary alignment); symbolic message bytes, key, nonce
//@ stubs: AES block function / GHASH multiply are the model primitives; alloc::fmt::format
//@ outside: other lengths/splits; real AES/GHASH values (suite's NIST vectors)
//@ replay: verif_replay_aesgcm::gcm_split len=16 c1=0 c2=16
#[kani::proof]
#[kani::unwind(26)]
#[kani::stub(alloc::fmt::format, nofmt)]
fn h_gcm_split_16_0_16() {
    gcm_split_body(16, 0, 16);
}

//@ props: C06
//@ tier: thorough
//@ functions: crypto::aesgcm::AesGcm256::encrypt (unaligned pieces, pending block handling); AesGcm256::into_tag; AesGcm256::decrypt
//@ bounds: CONCRETE message length 16 cut at 1 and 1 (thorough tier: 103 enumerated splits over lengths 0,1,2,15,16,17,20,23,24 incl. every block-boundary alignment); symbolic message bytes, key, nonce
//@ stubs: AES block function / GHASH multiply are the model primitives; alloc::fmt::format
//@ outside: other lengths/splits; real AES/GHASH values (suite's NIST vectors)
//@ replay: verif_replay_aesgcm::gcm_split len=16 c1=1 c2=1
#[kani::proof]
#[kani::unwind(26)]
#[kani::stub(alloc::fmt::format, nofmt)]
fn h_gcm_split_16_1_1() {
    gcm_split_body(16, 1, 1);
}

//@ props: C06
//@ tier: thorough
//@ functions: crypto::aesgcm::AesGcm256::encrypt (unaligned pieces, pending block handling); AesGcm256::into_tag; AesGcm256::decrypt
//@ bounds: CONCRETE message length 16 cut at 1 and 2 (thorough tier: 103 enumerated splits over lengths 0,1,2,15,16,17,20,23,24 incl. every block-boundary alignment); symbolic message bytes, key, nonce
//@ stubs: AES block function / GHASH multiply are the model primitives; alloc::fmt::format
//@ outside: other lengths/splits; real AES/GHASH values (suite's NIST vectors)
//@ replay: verif_replay_aesgcm::gcm_split len=16 c1=1 c2=2
#[kani::proof]
#[kani::unwind(26)]
#[kani::stub(alloc::fmt::format, nofmt)]
fn h_gcm_split_16_1_2() {
    gcm_split_body(16, 1, 2);
}

//@ props: C06
//@ tier: thorough
//@ functions: crypto::aesgcm::AesGcm256::encrypt (unaligned pieces, pending block handling); AesGcm256::into_tag; AesGcm256::decrypt
//@ bounds: CONCRETE message length 16 cut at 1 and 16 (thorough tier: 103 enumerated splits over lengths 0,1,2,15,16,17,20,23,24 incl. every block-boundary alignment); symbolic message bytes, key, nonce
//@ stubs: AES block function / GHASH multiply are the model primitives; alloc::fmt::format
//@ outside: other lengths/splits; real AES/GHASH values (suite's NIST vectors)
//@ replay: verif_replay_aesgcm::gcm_split len=16 c1=1 c2=16
#[kani::proof]
#[kani::unwind(26)]
#[kani::stub(alloc::fmt::format, nofmt)]
fn h_gcm_split_16_1_16() {
    gcm_split_body(16, 1, 16);
}

//@ props: C06
//@ tier: thorough
//@ functions: crypto::aesgcm::AesGcm256::encrypt (unaligned pieces, pending block handling); AesGcm256::into_tag; AesGcm256::decrypt
//@ bounds: CONCRETE message length 16 cut at 8 and 8 (thorough tier: 103 enumerated splits over lengths 0,1,2,15,16,17,20,23,24 incl. every block-boundary alignment); symbolic message bytes, key, nonce
//@ stubs: AES block function / GHASH multiply are the model primitives; alloc::fmt::format
//@ outside: other lengths/splits; real AES/GHASH values (suite's NIST vectors)
//@ replay: verif_replay_aesgcm::gcm_split len=16 c1=8 c2=8
#[kani::proof]
#[kani::unwind(26)]
#[kani::stub(alloc::fmt::format, nofmt)]
fn h_gcm_split_16_8_8() {
    gcm_split_body(16, 8, 8);
}

//@ props: C06
//@ tier: thorough
//@ functions: crypto::aesgcm::AesGcm256::encrypt (unaligned pieces, pending block handling); AesGcm256::into_tag; AesGcm256::decrypt
//@ bounds: CONCRETE message length 16 cut at 8 and 9 (thorough tier: 103 enumerated splits over lengths 0,1,2,15,16,17,20,23,24 incl. every block-boundary alignment); symbolic message bytes, key, nonce
//@ stubs: AES block function / GHASH multiply are the model primitives; alloc::fmt::format
//@ outside: other lengths/splits; real AES/GHASH values (suite's NIST vectors)
//@ replay: verif_replay_aesgcm::gcm_split len=16 c1=8 c2=9
#[kani::proof]
#[kani::unwind(26)]
#[kani::stub(alloc::fmt::format, nofmt)]
fn h_gcm_split_16_8_9() {
    gcm_split_body(16, 8, 9);
}

//@ props: C06
//@ tier: thorough
//@ functions: crypto::aesgcm::AesGcm256::encrypt (unaligned pieces, pending block handling); AesGcm256::into_tag; AesGcm256::decrypt
//@ bounds: CONCRETE message length 16 cut at 8 and 16 (thorough tier: 103 enumerated splits over lengths 0,1,2,15,16,17,20,23,24 incl. every block-boundary alignment); symbolic message bytes, key, nonce
//@ stubs: AES block function / GHASH multiply are the model primitives; alloc::fmt::format
//@ outside: other lengths/splits; real AES/GHASH values (suite's NIST vectors)
//@ replay: verif_replay_aesgcm::gcm_split len=16 c1=8 c2=16
#[kani::proof]
#[kani::unwind(26)]
#[kani::stub(alloc::fmt::format, nofmt)]
fn h_gcm_split_16_8_16() {
    gcm_split_body(16, 8, 16);
}

//@ props: C06
//@ tier: thorough
//@ functions: crypto::aesgcm::AesGcm256::encrypt (unaligned pieces, pending block handling); AesGcm256::into_tag; AesGcm256::decrypt
//@ bounds: CONCRETE message length 16 cut at 15 and 15 (thorough tier: 103 enumerated splits over lengths 0,1,2,15,16,17,20,23,24 incl. every block-boundary alignment); symbolic message bytes, key, nonce
//@ stubs: AES block function / GHASH multiply are the model primitives; alloc::fmt::format
//@ outside: other lengths/splits; real AES/GHASH values (suite's NIST vectors)
//@ replay: verif_replay_aesgcm::gcm_split len=16 c1=15 c2=15
#[kani::proof]
#[kani::unwind(26)]
#[kani::stub(alloc::fmt::format, nofmt)]
fn h_gcm_split_16_15_15() {
    gcm_split_body(16, 15, 15);
}

//@ props: C06
//@ tier: thorough
//@ functions: crypto::aesgcm::AesGcm256::encrypt (unaligned pieces, pending block handling); AesGcm256::into_tag; AesGcm256::decrypt
//@ bounds: CONCRETE message length 16 cut at 15 and 16 (thorough tier: 103 enumerated splits over lengths 0,1,2,15,16,17,20,23,24 incl. every block-boundary alignment); symbolic message bytes, key, nonce
//@ stubs: AES block function / GHASH multiply are the model primitives; alloc::fmt::format
//@ outside: other lengths/splits; real AES/GHASH values (suite's NIST vectors)
//@ replay: verif_replay_aesgcm::gcm_split len=16 c1=15 c2=16
#[kani::proof]
#[kani::unwind(26)]
#[kani::stub(alloc::fmt::format, nofmt)]
fn h_gcm_split_16_15_16() {
    gcm_split_body(16, 15, 16);
}

//@ props: C06
//@ tier: thorough
//@ functions: crypto::aesgcm::AesGcm256::encrypt (unaligned pieces, pending block handling); AesGcm256::into_tag; AesGcm256::decrypt
//@ bounds: CONCRETE message length 16 cut at 16 and 16 (thorough tier: 103 enumerated splits over lengths 0,1,2,15,16,17,20,23,24 incl. every block-boundary alignment); symbolic message bytes, key, nonce
//@ stubs: AES block function / GHASH multiply are the model primitives; alloc::fmt::format
//@ outside: other lengths/splits; real AES/GHASH values (suite's NIST vectors)
//@ replay: verif_replay_aesgcm::gcm_split len=16 c1=16 c2=16
#[kani::proof]
#[kani::unwind(26)]
#[kani::stub(alloc::fmt::format, nofmt)]
fn h_gcm_split_16_16_16() {
    gcm_split_body(16, 16, 16);
}

//@ props: C06
//@ tier: thorough
//@ functions: crypto::aesgcm::AesGcm256::encrypt (unaligned pieces, pending block handling); AesGcm256::into_tag; AesGcm256::decrypt
//@ bounds: CONCRETE message length 17 cut at 0 and 0 (thorough tier: 103 enumerated splits over lengths 0,1,2,15,16,17,20,23,24 incl. every block-boundary alignment); symbolic message bytes, key, nonce
//@ stubs: AES block function / GHASH multiply are the model primitives; alloc::fmt::format
//@ outside: other lengths/splits; real AES/GHASH values (suite's NIST vectors)
//@ replay: verif_replay_aesgcm::gcm_split len=17 c1=0 c2=0
#[kani::proof]
#[kani::unwind(26)]
#[kani::stub(alloc::fmt::format, nofmt)]
fn h_gcm_split_17_0_0() {
    gcm_split_body(17, 0, 0);
}

//@ props: C06
//@ tier: thorough
//@ functions: crypto::aesgcm::AesGcm256::encrypt (unaligned pieces, pending block handling); AesGcm256::into_tag; AesGcm256::decrypt
//@ bounds: CONCRETE message length 17 cut at 0 and 1 (thorough tier: 103 enumerated splits over lengths 0,1,2,15,16,17,20,23,24 incl. every block-boundary alignment); symbolic message bytes, key, nonce
//@ stubs: AES block function / GHASH multiply are the model primitives; alloc::fmt::format
//@ outside: other lengths/splits; real AES/GHASH values (suite's NIST vectors)
//@ replay: verif_replay_aesgcm::gcm_split len=17 c1=0 c2=1
#[kani::proof]
#[kani::unwind(26)]
#[kani::stub(alloc::fmt::format, nofmt)]
fn h_gcm_split_17_0_1() {
    gcm_split_body(17, 0, 1);
}

//@ props: C06
//@ tier: thorough
//@ functions: crypto::aesgcm::AesGcm256::encrypt (unaligned pieces, pending block handling); AesGcm256::into_tag; AesGcm256::decrypt
//@ bounds: CONCRETE message length 17 cut at 0 and 16 (thorough tier: 103 enumerated splits over lengths 0,1,2,15,16,17,20,23,24 incl. every block-boundary alignment); symbolic message bytes, key, nonce
//@ stubs: AES block function / GHASH multiply are the model primitives; alloc::fmt::format
//@ outside: other lengths/splits; real AES/GHASH values (suite's NIST vectors)
//@ replay: verif_replay_aesgcm::gcm_split len=17 c1=0 c2=16
#[kani::proof]
#[kani::unwind(26)]
#[kani::stub(alloc::fmt::format, nofmt)]
fn h_gcm_split_17_0_16() {
    gcm_split_body(17, 0, 16);
}

//@ props: C06
//@ tier: thorough
//@ functions: crypto::aesgcm::AesGcm256::encrypt (unaligned pieces, pending block handling); AesGcm256::into_tag; AesGcm256::decrypt
//@ bounds: CONCRETE message length 17 cut at 0 and 17 (thorough tier: 103 enumerated splits over lengths 0,1,2,15,16,17,20,23,24 incl. every block-boundary alignment); symbolic message bytes, key, nonce
//@ stubs: AES block function / GHASH multiply are the model primitives; alloc::fmt::format
//@ outside: other lengths/splits; real AES/GHASH values (suite's NIST vectors)
//@ replay: verif_replay_aesgcm::gcm_split len=17 c1=0 c2=17
#[kani::proof]
#[kani::unwind(26)]
#[kani::stub(alloc::fmt::format, nofmt)]
fn h_gcm_split_17_0_17() {
    gcm_split_body(17, 0, 17);
}

//@ props: C06
//@ tier: thorough
//@ functions: crypto::aesgcm::AesGcm256::encrypt (unaligned pieces, pending block handling); AesGcm256::into_tag; AesGcm256::decrypt
//@ bounds: CONCRETE message length 17 cut at 1 and 1 (thorough tier: 103 enumerated splits over lengths 0,1,2,15,16,17,20,23,24 incl. every block-boundary alignment); symbolic message bytes, key, nonce
//@ stubs: AES block function / GHASH multiply are the model primitives; alloc::fmt::format
//@ outside: other lengths/splits; real AES/GHASH values (suite's NIST vectors)
//@ replay: verif_replay_aesgcm::gcm_split len=17 c1=1 c2=1
#[kani::proof]
#[kani::unwind(26)]
#[kani::stub(alloc::fmt::format, nofmt)]
fn h_gcm_split_17_1_1() {
    gcm_split_body(17, 1, 1);
}

//@ props: C06
//@ tier: thorough
//@ functions: crypto::aesgcm::AesGcm256::encrypt (unaligned pieces, pending block handling); AesGcm256::into_tag; AesGcm256::decrypt
//@ bounds: CONCRETE message length 17 cut at 1 and 2 (thorough tier: 103 enumerated splits over lengths 0,1,2,15,16,17,20,23,24 incl. every block-boundary alignment); symbolic message bytes, key, nonce
//@ stubs: AES block function / GHASH multiply are the model primitives; alloc::fmt::format
//@ outside: other lengths/splits; real AES/GHASH values (suite's NIST vectors)
//@ replay: verif_replay_aesgcm::gcm_split len=17 c1=1 c2=2
#[kani::proof]
#[kani::unwind(26)]
#[kani::stub(alloc::fmt::format, nofmt)]
fn h_gcm_split_17_1_2() {
    gcm_split_body(17, 1, 2);
}

//@ props: C06
//@ tier: thorough
//@ functions: crypto::aesgcm::AesGcm256::encrypt (unaligned pieces, pending block handling); AesGcm256::into_tag; AesGcm256::decrypt
//@ bounds: CONCRETE message length 17 cut at 1 and 17 (thorough tier: 103 enumerated splits over lengths 0,1,2,15,16,17,20,23,24 incl. every block-boundary alignment); symbolic message bytes, key, nonce
//@ stubs: AES block function / GHASH multiply are the model primitives; alloc::fmt::format
//@ outside: other lengths/splits; real AES/GHASH values (suite's NIST vectors)
//@ replay: verif_replay_aesgcm::gcm_split len=17 c1=1 c2=17
#[kani::proof]
#[kani::unwind(26)]
#[kani::stub(alloc::fmt::format, nofmt)]
fn h_gcm_split_17_1_17() {
    gcm_split_body(17, 1, 17);
}

//@ props: C06
//@ tier: thorough
//@ functions: crypto::aesgcm::AesGcm256::encrypt (unaligned pieces, pending block handling); AesGcm256::into_tag; AesGcm256::decrypt
//@ bounds: CONCRETE message length 17 cut at 8 and 8 (thorough tier: 103 enumerated splits over lengths 0,1,2,15,16,17,20,23,24 incl. every block-boundary alignment); symbolic message bytes, key, nonce
//@ stubs: AES block function / GHASH multiply are the model primitives; alloc::fmt::format
//@ outside: other lengths/splits; real AES/GHASH values (suite's NIST vectors)
//@ replay: verif_replay_aesgcm::gcm_split len=17 c1=8 c2=8
#[kani::proof]
#[kani::unwind(26)]
#[kani::stub(alloc::fmt::format, nofmt)]
fn h_gcm_split_17_8_8() {
    gcm_split_body(17, 8, 8);
}

//@ props: C06
//@ tier: thorough
//@ functions: crypto::aesgcm::AesGcm256::encrypt (unaligned pieces, pending block handling); AesGcm256::into_tag; AesGcm256::decrypt
//@ bounds: CONCRETE message length 17 cut at 8 and 9 (thorough tier: 103 enumerated splits over lengths 0,1,2,15,16,17,20,23,24 incl. every block-boundary alignment); symbolic message bytes, key, nonce
//@ stubs: AES block function / GHASH multiply are the model primitives; alloc::fmt::format
//@ outside: other lengths/splits; real AES/GHASH values (suite's NIST vectors)
//@ replay: verif_replay_aesgcm::gcm_split len=17 c1=8 c2=9
#[kani::proof]
#[kani::unwind(26)]
#[kani::stub(alloc::fmt::format, nofmt)]
fn h_gcm_split_17_8_9() {
    gcm_split_body(17, 8, 9);
}

//@ props: C06
//@ tier: thorough
//@ functions: crypto::aesgcm::AesGcm256::encrypt (unaligned pieces, pending block handling); AesGcm256::into_tag; AesGcm256::decrypt
//@ bounds: CONCRETE message length 17 cut at 8 and 16 (thorough tier: 103 enumerated splits over lengths 0,1,2,15,16,17,20,23,24 incl. every block-boundary alignment); symbolic message bytes, key, nonce
//@ stubs: AES block function / GHASH multiply are the model primitives; alloc::fmt::format
//@ outside: other lengths/splits; real AES/GHASH values (suite's NIST vectors)
//@ replay: verif_replay_aesgcm::gcm_split len=17 c1=8 c2=16
#[kani::proof]
#[kani::unwind(26)]
#[kani::stub(alloc::fmt::format, nofmt)]
fn h_gcm_split_17_8_16() {
    gcm_split_body(17, 8, 16);
}

//@ props: C06
//@ tier: thorough
//@ functions: crypto::aesgcm::AesGcm256::encrypt (unaligned pieces, pending block handling); AesGcm256::into_tag; AesGcm256::decrypt
//@ bounds: CONCRETE message length 17 cut at 8 and 17 (thorough tier: 103 enumerated splits over lengths 0,1,2,15,16,17,20,23,24 incl. every block-boundary alignment); symbolic message bytes, key, nonce
//@ stubs: AES block function / GHASH multiply are the model primitives; alloc::fmt::format
//@ outside: other lengths/splits; real AES/GHASH values (suite's NIST vectors)
//@ replay: verif_replay_aesgcm::gcm_split len=17 c1=8 c2=17
#[kani::proof]
#[kani::unwind(26)]
#[kani::stub(alloc::fmt::format, nofmt)]
fn h_gcm_split_17_8_17() {
    gcm_split_body(17, 8, 17);
}

//@ props: C06
//@ tier: thorough
//@ functions: crypto::aesgcm::AesGcm256::encrypt (unaligned pieces, pending block handling); AesGcm256::into_tag; AesGcm256::decrypt
//@ bounds: CONCRETE message length 17 cut at 15 and 15 (thorough tier: 103 enumerated splits over lengths 0,1,2,15,16,17,20,23,24 incl. every block-boundary alignment); symbolic message bytes, key, nonce
//@ stubs: AES block function / GHASH multiply are the model primitives; alloc::fmt::format
//@ outside: other lengths/splits; real AES/GHASH values (suite's NIST vectors)
//@ replay: verif_replay_aesgcm::gcm_split len=17 c1=15 c2=15
#[kani::proof]
#[kani::unwind(26)]
#[kani::stub(alloc::fmt::format, nofmt)]
fn h_gcm_split_17_15_15() {
    gcm_split_body(17, 15, 15);
}

//@ props: C06
//@ tier: thorough
//@ functions: crypto::aesgcm::AesGcm256::encrypt (unaligned pieces, pending block handling); AesGcm256::into_tag; AesGcm256::decrypt
//@ bounds: CONCRETE message length 17 cut at 15 and 16 (thorough tier: 103 enumerated splits over lengths 0,1,2,15,16,17,20,23,24 incl. every block-boundary alignment); symbolic message bytes, key, nonce
//@ stubs: AES block function / GHASH multiply are the model primitives; alloc::fmt::format
//@ outside: other lengths/splits; real AES/GHASH values (suite's NIST vectors)
//@ replay: verif_replay_aesgcm::gcm_split len=17 c1=15 c2=16
#[kani::proof]
#[kani::unwind(26)]
#[kani::stub(alloc::fmt::format, nofmt)]
fn h_gcm_split_17_15_16() {
    gcm_split_body(17, 15, 16);
}

//@ props: C06
//@ tier: thorough
//@ functions: crypto::aesgcm::AesGcm256::encrypt (unaligned pieces, pending block handling); AesGcm256::into_tag; AesGcm256::decrypt
//@ bounds: CONCRETE message length 17 cut at 15 and 17 (thorough tier: 103 enumerated splits over lengths 0,1,2,15,16,17,20,23,24 incl. every block-boundary alignment); symbolic message bytes, key, nonce
//@ stubs: AES block function / GHASH multiply are the model primitives; alloc::fmt::format
//@ outside: other lengths/splits; real AES/GHASH values (suite's NIST vectors)
//@ replay: verif_replay_aesgcm::gcm_split len=17 c1=15 c2=17
#[kani::proof]
#[kani::unwind(26)]
#[kani::stub(alloc::fmt::format, nofmt)]
fn h_gcm_split_17_15_17() {
    gcm_split_body(17, 15, 17);
}

//@ props: C06
//@ tier: thorough
//@ functions: crypto::aesgcm::AesGcm256::encrypt (unaligned pieces, pending block handling); AesGcm256::into_tag; AesGcm256::decrypt
//@ bounds: CONCRETE message length 17 cut at 16 and 16 (thorough tier: 103 enumerated splits over lengths 0,1,2,15,16,17,20,23,24 incl. every block-boundary alignment); symbolic message bytes, key, nonce
//@ stubs: AES block function / GHASH multiply are the model primitives; alloc::fmt::format
//@ outside: other lengths/splits; real AES/GHASH values (suite's NIST vectors)
//@ replay: verif_replay_aesgcm::gcm_split len=17 c1=16 c2=16
#[kani::proof]
#[kani::unwind(26)]
#[kani::stub(alloc::fmt::format, nofmt)]
fn h_gcm_split_17_16_16() {
    gcm_split_body(17, 16, 16);
}

//@ props: C06
//@ tier: thorough
//@ functions: crypto::aesgcm::AesGcm256::encrypt (unaligned pieces, pending block handling); AesGcm256::into_tag; AesGcm256::decrypt
//@ bounds: CONCRETE message length 17 cut at 16 and 17 (thorough tier: 103 enumerated splits over lengths 0,1,2,15,16,17,20,23,24 incl. every block-boundary alignment); symbolic message bytes, key, nonce
//@ stubs: AES block function / GHASH multiply are the model primitives; alloc::fmt::format
//@ outside: other lengths/splits; real AES/GHASH values (suite's NIST vectors)
//@ replay: verif_replay_aesgcm::gcm_split len=17 c1=16 c2=17
#[kani::proof]
#[kani::unwind(26)]
#[kani::stub(alloc::fmt::format, nofmt)]
fn h_gcm_split_17_16_17() {
    gcm_split_body(17, 16, 17);
}

//@ props: C06
//@ tier: thorough
//@ functions: crypto::aesgcm::AesGcm256::encrypt (unaligned pieces, pending block handling); AesGcm256::into_tag; AesGcm256::decrypt
//@ bounds: CONCRETE message length 17 cut at 17 and 17 (thorough tier: 103 enumerated splits over lengths 0,1,2,15,16,17,20,23,24 incl. every block-boundary alignment); symbolic message bytes, key, nonce
//@ stubs: AES block function / GHASH multiply are the model primitives; alloc::fmt::format
//@ outside: other lengths/splits; real AES/GHASH values (suite's NIST vectors)
//@ replay: verif_replay_aesgcm::gcm_split len=17 c1=17 c2=17
#[kani::proof]
#[kani::unwind(26)]
#[kani::stub(alloc::fmt::format, nofmt)]
fn h_gcm_split_17_17_17() {
    gcm_split_body(17, 17, 17);
}

//@ props: C06
//@ tier: thorough
//@ functions: crypto::aesgcm::AesGcm256::encrypt (unaligned pieces, pending block handling); AesGcm256::into_tag; AesGcm256::decrypt
//@ bounds: CONCRETE message length 23 cut at 0 and 0 (thorough tier: 103 enumerated splits over lengths 0,1,2,15,16,17,20,23,24 incl. every block-boundary alignment); symbolic message bytes, key, nonce
//@ stubs: AES block function / GHASH multiply are the model primitives; alloc::fmt::format
//@ outside: other lengths/splits; real AES/GHASH values (suite's NIST vectors)
//@ replay: verif_replay_aesgcm::gcm_split len=23 c1=0 c2=0
#[kani::proof]
#[kani::unwind(26)]
#[kani::stub(alloc::fmt::format, nofmt)]
fn h_gcm_split_23_0_0() {
    gcm_split_body(23, 0, 0);
}

//@ props: C06
//@ tier: thorough
//@ functions: crypto::aesgcm::AesGcm256::encrypt (unaligned pieces, pending block handling); AesGcm256::into_tag; AesGcm256::decrypt
//@ bounds: CONCRETE message length 23 cut at 0 and 1 (thorough tier: 103 enumerated splits over lengths 0,1,2,15,16,17,20,23,24 incl. every block-boundary alignment); symbolic message bytes, key, nonce
//@ stubs: AES block function / GHASH multiply are the model primitives; alloc::fmt::format
//@ outside: other lengths/splits; real AES/GHASH values (suite's NIST vectors)
//@ replay: verif_replay_aesgcm::gcm_split len=23 c1=0 c2=1
#[kani::proof]
#[kani::unwind(26)]
#[kani::stub(alloc::fmt::format, nofmt)]
fn h_gcm_split_23_0_1() {
    gcm_split_body(23, 0, 1);
}

//@ props: C06
//@ tier: thorough
//@ functions: crypto::aesgcm::AesGcm256::encrypt (unaligned pieces, pending block handling); AesGcm256::into_tag; AesGcm256::decrypt
//@ bounds: CONCRETE message length 23 cut at 0 and 16 (thorough tier: 103 enumerated splits over lengths 0,1,2,15,16,17,20,23,24 incl. every block-boundary alignment); symbolic message bytes, key, nonce
//@ stubs: AES block function / GHASH multiply are the model primitives; alloc::fmt::format
//@ outside: other lengths/splits; real AES/GHASH values (suite's NIST vectors)
//@ replay: verif_replay_aesgcm::gcm_split len=23 c1=0 c2=16
#[kani::proof]
#[kani::unwind(26)]
#[kani::stub(alloc::fmt::format, nofmt)]
fn h_gcm_split_23_0_16() {
    gcm_split_body(23, 0, 16);
}

//@ props: C06
//@ tier: thorough
//@ functions: crypto::aesgcm::AesGcm256::encrypt (unaligned pieces, pending block handling); AesGcm256::into_tag; AesGcm256::decrypt
//@ bounds: CONCRETE message length 23 cut at 0 and 17 (thorough tier: 103 enumerated splits over lengths 0,1,2,15,16,17,20,23,24 incl. every block-boundary alignment); symbolic message bytes, key, nonce
//@ stubs: AES block function / GHASH multiply are the model primitives; alloc::fmt::format
//@ outside: other lengths/splits; real AES/GHASH values (suite's NIST vectors)
//@ replay: verif_replay_aesgcm::gcm_split len=23 c1=0 c2=17
#[kani::proof]
#[kani::unwind(26)]
#[kani::stub(alloc::fmt::format, nofmt)]
fn h_gcm_split_23_0_17() {
    gcm_split_body(23, 0, 17);
}

//@ props: C06
//@ tier: thorough
//@ functions: crypto::aesgcm::AesGcm256::encrypt (unaligned pieces, pending block handling); AesGcm256::into_tag; AesGcm256::decrypt
//@ bounds: CONCRETE message length 23 cut at 0 and 23 (thorough tier: 103 enumerated splits over lengths 0,1,2,15,16,17,20,23,24 incl. every block-boundary alignment); symbolic message bytes, key, nonce
//@ stubs: AES block function / GHASH multiply are the model primitives; alloc::fmt::format
//@ outside: other lengths/splits; real AES/GHASH values (suite's NIST vectors)
//@ replay: verif_replay_aesgcm::gcm_split len=23 c1=0 c2=23
#[kani::proof]
#[kani::unwind(26)]
#[kani::stub(alloc::fmt::format, nofmt)]
fn h_gcm_split_23_0_23() {
    gcm_split_body(23, 0, 23);
}

//@ props: C06
//@ tier: thorough
//@ functions: crypto::aesgcm::AesGcm256::encrypt (unaligned pieces, pending block handling); AesGcm256::into_tag; AesGcm256::decrypt
//@ bounds: CONCRETE message length 23 cut at 1 and 1 (thorough tier: 103 enumerated splits over lengths 0,1,2,15,16,17,20,23,24 incl. every block-boundary alignment); symbolic message bytes, key, nonce
//@ stubs: AES block function / GHASH multiply are the model primitives; alloc::fmt::format
//@ outside: other lengths/splits; real AES/GHASH values (suite's NIST vectors)
//@ replay: verif_replay_aesgcm::gcm_split len=23 c1=1 c2=1
#[kani::proof]
#[kani::unwind(26)]
#[kani::stub(alloc::fmt::format, nofmt)]
fn h_gcm_split_23_1_1() {
    gcm_split_body(23, 1, 1);
}

//@ props: C06
//@ tier: thorough
//@ functions: crypto::aesgcm::AesGcm256::encrypt (unaligned pieces, pending block handling); AesGcm256::into_tag; AesGcm256::decrypt
//@ bounds: CONCRETE message length 23 cut at 1 and 2 (thorough tier: 103 enumerated splits over lengths 0,1,2,15,16,17,20,23,24 incl. every block-boundary alignment); symbolic message bytes, key, nonce
//@ stubs: AES block function / GHASH multiply are the model primitives; alloc::fmt::format
//@ outside: other lengths/splits; real AES/GHASH values (suite's NIST vectors)
//@ replay: verif_replay_aesgcm::gcm_split len=23 c1=1 c2=2
#[kani::proof]
#[kani::unwind(26)]
#[kani::stub(alloc::fmt::format, nofmt)]
fn h_gcm_split_23_1_2() {
    gcm_split_body(23, 1, 2);
}

//@ props: C06
//@ tier: thorough
//@ functions: crypto::aesgcm::AesGcm256::encrypt (unaligned pieces, pending block handling); AesGcm256::into_tag; AesGcm256::decrypt
//@ bounds: CONCRETE message length 23 cut at 1 and 16 (thorough tier: 103 enumerated splits over lengths 0,1,2,15,16,17,20,23,24 incl. every block-boundary alignment); symbolic message bytes, key, nonce
//@ stubs: AES block function / GHASH multiply are the model primitives; alloc::fmt::format
//@ outside: other lengths/splits; real AES/GHASH values (suite's NIST vectors)
//@ replay: verif_replay_aesgcm::gcm_split len=23 c1=1 c2=16
#[kani::proof]
#[kani::unwind(26)]
#[kani::stub(alloc::fmt::format, nofmt)]
fn h_gcm_split_23_1_16() {
    gcm_split_body(23, 1, 16);
}

//@ props: C06
//@ tier: thorough
//@ functions: crypto::aesgcm::AesGcm256::encrypt (unaligned pieces, pending block handling); AesGcm256::into_tag; AesGcm256::decrypt
//@ bounds: CONCRETE message length 23 cut at 1 and 17 (thorough tier: 103 enumerated splits over lengths 0,1,2,15,16,17,20,23,24 incl. every block-boundary alignment); symbolic message bytes, key, nonce
//@ stubs: AES block function / GHASH multiply are the model primitives; alloc::fmt::format
//@ outside: other lengths/splits; real AES/GHASH values (suite's NIST vectors)
//@ replay: verif_replay_aesgcm::gcm_split len=23 c1=1 c2=17
#[kani::proof]
#[kani::unwind(26)]
#[kani::stub(alloc::fmt::format, nofmt)]
fn h_gcm_split_23_1_17() {
    gcm_split_body(23, 1, 17);
}

//@ props: C06
//@ tier: thorough
//@ functions: crypto::aesgcm::AesGcm256::encrypt (unaligned pieces, pending block handling); AesGcm256::into_tag; AesGcm256::decrypt
//@ bounds: CONCRETE message length 23 cut at 1 and 23 (thorough tier: 103 enumerated splits over lengths 0,1,2,15,16,17,20,23,24 incl. every block-boundary alignment); symbolic message bytes, key, nonce
//@ stubs: AES block function / GHASH multiply are the model primitives; alloc::fmt::format
//@ outside: other lengths/splits; real AES/GHASH values (suite's NIST vectors)
//@ replay: verif_replay_aesgcm::gcm_split len=23 c1=1 c2=23
#[kani::proof]
#[kani::unwind(26)]
#[kani::stub(alloc::fmt::format, nofmt)]
fn h_gcm_split_23_1_23() {
    gcm_split_body(23, 1, 23);
}

//@ props: C06
//@ tier: thorough
//@ functions: crypto::aesgcm::AesGcm256::encrypt (unaligned pieces, pending block handling); AesGcm256::into_tag; AesGcm256::decrypt
//@ bounds: CONCRETE message length 23 cut at 11 and 11 (thorough tier: 103 enumerated splits over lengths 0,1,2,15,16,17,20,23,24 incl. every block-boundary alignment); symbolic message bytes, key, nonce
//@ stubs: AES block function / GHASH multiply are the model primitives; alloc::fmt::format
//@ outside: other lengths/splits; real AES/GHASH values (suite's NIST vectors)
//@ replay: verif_replay_aesgcm::gcm_split len=23 c1=11 c2=11
#[kani::proof]
#[kani::unwind(26)]
#[kani::stub(alloc::fmt::format, nofmt)]
fn h_gcm_split_23_11_11() {
    gcm_split_body(23, 11, 11);
}

//@ props: C06
//@ tier: thorough
//@ functions: crypto::aesgcm::AesGcm256::encrypt (unaligned pieces, pending block handling); AesGcm256::into_tag; AesGcm256::decrypt
//@ bounds: CONCRETE message length 23 cut at 11 and 12 (thorough tier: 103 enumerated splits over lengths 0,1,2,15,16,17,20,23,24 incl. every block-boundary alignment); symbolic message bytes, key, nonce
//@ stubs: AES block function / GHASH multiply are the model primitives; alloc::fmt::format
//@ outside: other lengths/splits; real AES/GHASH values (suite's NIST vectors)
//@ replay: verif_replay_aesgcm::gcm_split len=23 c1=11 c2=12
#[kani::proof]
#[kani::unwind(26)]
#[kani::stub(alloc::fmt::format, nofmt)]
fn h_gcm_split_23_11_12() {
    gcm_split_body(23, 11, 12);
}

//@ props: C06
//@ tier: thorough
//@ functions: crypto::aesgcm::AesGcm256::encrypt (unaligned pieces, pending block handling); AesGcm256::into_tag; AesGcm256::decrypt
//@ bounds: CONCRETE message length 23 cut at 11 and 16 (thorough tier: 103 enumerated splits over lengths 0,1,2,15,16,17,20,23,24 incl. every block-boundary alignment); symbolic message bytes, key, nonce
//@ stubs: AES block function / GHASH multiply are the model primitives; alloc::fmt::format
//@ outside: other lengths/splits; real AES/GHASH values (suite's NIST vectors)
//@ replay: verif_replay_aesgcm::gcm_split len=23 c1=11 c2=16
#[kani::proof]
#[kani::unwind(26)]
#[kani::stub(alloc::fmt::format, nofmt)]
fn h_gcm_split_23_11_16() {
    gcm_split_body(23, 11, 16);
}

//@ props: C06
//@ tier: thorough
//@ functions: crypto::aesgcm::AesGcm256::encrypt (unaligned pieces, pending block handling); AesGcm256::into_tag; AesGcm256::decrypt
//@ bounds: CONCRETE message length 23 cut at 11 and 17 (thorough tier: 103 enumerated splits over lengths 0,1,2,15,16,17,20,23,24 incl. every block-boundary alignment); symbolic message bytes, key, nonce
//@ stubs: AES block function / GHASH multiply are the model primitives; alloc::fmt::format
//@ outside: other lengths/splits; real AES/GHASH values (suite's NIST vectors)
//@ replay: verif_replay_aesgcm::gcm_split len=23 c1=11 c2=17
#[kani::proof]
#[kani::unwind(26)]
#[kani::stub(alloc::fmt::format, nofmt)]
fn h_gcm_split_23_11_17() {
    gcm_split_body(23, 11, 17);
}

//@ props: C06
//@ tier: thorough
//@ functions: crypto::aesgcm::AesGcm256::encrypt (unaligned pieces, pending block handling); AesGcm256::into_tag; AesGcm256::decrypt
//@ bounds: CONCRETE message length 23 cut at 11 and 23 (thorough tier: 103 enumerated splits over lengths 0,1,2,15,16,17,20,23,24 incl. every block-boundary alignment); symbolic message bytes, key, nonce
//@ stubs: AES block function / GHASH multiply are the model primitives; alloc::fmt::format
//@ outside: other lengths/splits; real AES/GHASH values (suite's NIST vectors)
//@ replay: verif_replay_aesgcm::gcm_split len=23 c1=11 c2=23
#[kani::proof]
#[kani::unwind(26)]
#[kani::stub(alloc::fmt::format, nofmt)]
fn h_gcm_split_23_11_23() {
    gcm_split_body(23, 11, 23);
}

//@ props: C06
//@ tier: thorough
//@ functions: crypto::aesgcm::AesGcm256::encrypt (unaligned pieces, pending block handling); AesGcm256::into_tag; AesGcm256::decrypt
//@ bounds: CONCRETE message length 23 cut at 15 and 15 (thorough tier: 103 enumerated splits over lengths 0,1,2,15,16,17,20,23,24 incl. every block-boundary alignment); symbolic message bytes, key, nonce
//@ stubs: AES block function / GHASH multiply are the model primitives; alloc::fmt::format
//@ outside: other lengths/splits; real AES/GHASH values (suite's NIST vectors)
//@ replay: verif_replay_aesgcm::gcm_split len=23 c1=15 c2=15
#[kani::proof]
#[kani::unwind(26)]
#[kani::stub(alloc::fmt::format, nofmt)]
fn h_gcm_split_23_15_15() {
    gcm_split_body(23, 15, 15);
}

//@ props: C06
//@ tier: thorough
//@ functions: crypto::aesgcm::AesGcm256::encrypt (unaligned pieces, pending block handling); AesGcm256::into_tag; AesGcm256::decrypt
//@ bounds: CONCRETE message length 23 cut at 15 and 16 (thorough tier: 103 enumerated splits over lengths 0,1,2,15,16,17,20,23,24 incl. every block-boundary alignment); symbolic message bytes, key, nonce
//@ stubs: AES block function / GHASH multiply are the model primitives; alloc::fmt::format
//@ outside: other lengths/splits; real AES/GHASH values (suite's NIST vectors)
//@ replay: verif_replay_aesgcm::gcm_split len=23 c1=15 c2=16
#[kani::proof]
#[kani::unwind(26)]
#[kani::stub(alloc::fmt::format, nofmt)]
fn h_gcm_split_23_15_16() {
    gcm_split_body(23, 15, 16);
}

//@ props: C06
//@ tier: thorough
//@ functions: crypto::aesgcm::AesGcm256::encrypt (unaligned pieces, pending block handling); AesGcm256::into_tag; AesGcm256::decrypt
//@ bounds: CONCRETE message length 23 cut at 15 and 17 (thorough tier: 103 enumerated splits over lengths 0,1,2,15,16,17,20,23,24 incl. every block-boundary alignment); symbolic message bytes, key, nonce
//@ stubs: AES block function / GHASH multiply are the model primitives; alloc::fmt::format
//@ outside: other lengths/splits; real AES/GHASH values (suite's NIST vectors)
//@ replay: verif_replay_aesgcm::gcm_split len=23 c1=15 c2=17
#[kani::proof]
#[kani::unwind(26)]
#[kani::stub(alloc::fmt::format, nofmt)]
fn h_gcm_split_23_15_17() {
    gcm_split_body(23, 15, 17);
}

//@ props: C06
//@ tier: thorough
//@ functions: crypto::aesgcm::AesGcm256::encrypt (unaligned pieces, pending block handling); AesGcm256::into_tag; AesGcm256::decrypt
//@ bounds: CONCRETE message length 23 cut at 15 and 23 (thorough tier: 103 enumerated splits over lengths 0,1,2,15,16,17,20,23,24 incl. every block-boundary alignment); symbolic message bytes, key, nonce
//@ stubs: AES block function / GHASH multiply are the model primitives; alloc::fmt::format
//@ outside: other lengths/splits; real AES/GHASH values (suite's NIST vectors)
//@ replay: verif_replay_aesgcm::gcm_split len=23 c1=15 c2=23
#[kani::proof]
#[kani::unwind(26)]
#[kani::stub(alloc::fmt::format, nofmt)]
fn h_gcm_split_23_15_23() {
    gcm_split_body(23, 15, 23);
}

//@ props: C06
//@ tier: thorough
//@ functions: crypto::aesgcm::AesGcm256::encrypt (unaligned pieces, pending block handling); AesGcm256::into_tag; AesGcm256::decrypt
//@ bounds: CONCRETE message length 23 cut at 16 and 16 (thorough tier: 103 enumerated splits over lengths 0,1,2,15,16,17,20,23,24 incl. every block-boundary alignment); symbolic message bytes, key, nonce
//@ stubs: AES block function / GHASH multiply are the model primitives; alloc::fmt::format
//@ outside: other lengths/splits; real AES/GHASH values (suite's NIST vectors)
//@ replay: verif_replay_aesgcm::gcm_split len=23 c1=16 c2=16
#[kani::proof]
#[kani::unwind(26)]
#[kani::stub(alloc::fmt::format, nofmt)]
fn h_gcm_split_23_16_16() {
    gcm_split_body(23, 16, 16);
}

//@ props: C06
//@ tier: thorough
//@ functions: crypto::aesgcm::AesGcm256::encrypt (unaligned pieces, pending block handling); AesGcm256::into_tag; AesGcm256::decrypt
//@ bounds: CONCRETE message length 23 cut at 16 and 17 (thorough tier: 103 enumerated splits over lengths 0,1,2,15,16,17,20,23,24 incl. every block-boundary alignment); symbolic message bytes, key, nonce
//@ stubs: AES block function / GHASH multiply are the model primitives; alloc::fmt::format
//@ outside: other lengths/splits; real AES/GHASH values (suite's NIST vectors)
//@ replay: verif_replay_aesgcm::gcm_split len=23 c1=16 c2=17
#[kani::proof]
#[kani::unwind(26)]
#[kani::stub(alloc::fmt::format, nofmt)]
fn h_gcm_split_23_16_17() {
    gcm_split_body(23, 16, 17);
}

//@ props: C06
//@ tier: thorough
//@ functions: crypto::aesgcm::AesGcm256::encrypt (unaligned pieces, pending block handling); AesGcm256::into_tag; AesGcm256::decrypt
//@ bounds: CONCRETE message length 23 cut at 16 and 23 (thorough tier: 103 enumerated splits over lengths 0,1,2,15,16,17,20,23,24 incl. every block-boundary alignment); symbolic message bytes, key, nonce
//@ stubs: AES block function / GHASH multiply are the model primitives; alloc::fmt::format
//@ outside: other lengths/splits; real AES/GHASH values (suite's NIST vectors)
//@ replay: verif_replay_aesgcm::gcm_split len=23 c1=16 c2=23
#[kani::proof]
#[kani::unwind(26)]
#[kani::stub(alloc::fmt::format, nofmt)]
fn h_gcm_split_23_16_23() {
    gcm_split_body(23, 16, 23);
}

//@ props: C06
//@ tier: thorough
//@ functions: crypto::aesgcm::AesGcm256::encrypt (unaligned pieces, pending block handling); AesGcm256::into_tag; AesGcm256::decrypt
//@ bounds: CONCRETE message length 23 cut at 22 and 22 (thorough tier: 103 enumerated splits over lengths 0,1,2,15,16,17,20,23,24 incl. every block-boundary alignment); symbolic message bytes, key, nonce
//@ stubs: AES block function / GHASH multiply are the model primitives; alloc::fmt::format
//@ outside: other lengths/splits; real AES/GHASH values (suite's NIST vectors)
//@ replay: verif_replay_aesgcm::gcm_split len=23 c1=22 c2=22
#[kani::proof]
#[kani::unwind(26)]
#[kani::stub(alloc::fmt::format, nofmt)]
fn h_gcm_split_23_22_22() {
    gcm_split_body(23, 22, 22);
}

//@ props: C06
//@ tier: thorough
//@ functions: crypto::aesgcm::AesGcm256::encrypt (unaligned pieces, pending block handling); AesGcm256::into_tag; AesGcm256::decrypt
//@ bounds: CONCRETE message length 23 cut at 22 and 23 (thorough tier: 103 enumerated splits over lengths 0,1,2,15,16,17,20,23,24 incl. every block-boundary alignment); symbolic message bytes, key, nonce
//@ stubs: AES block function / GHASH multiply are the model primitives; alloc::fmt::format
//@ outside: other lengths/splits; real AES/GHASH values (suite's NIST vectors)
//@ replay: verif_replay_aesgcm::gcm_split len=23 c1=22 c2=23
#[kani::proof]
#[kani::unwind(26)]
#[kani::stub(alloc::fmt::format, nofmt)]
fn h_gcm_split_23_22_23() {
    gcm_split_body(23, 22, 23);
}

//@ props: C06
//@ tier: thorough
//@ functions: crypto::aesgcm::AesGcm256::encrypt (unaligned pieces, pending block handling); AesGcm256::into_tag; AesGcm256::decrypt
//@ bounds: CONCRETE message length 23 cut at 23 and 23 (thorough tier: 103 enumerated splits over lengths 0,1,2,15,16,17,20,23,24 incl. every block-boundary alignment); symbolic message bytes, key, nonce
//@ stubs: AES block function / GHASH multiply are the model primitives; alloc::fmt::format
//@ outside: other lengths/splits; real AES/GHASH values (suite's NIST vectors)
//@ replay: verif_replay_aesgcm::gcm_split len=23 c1=23 c2=23
#[kani::proof]
#[kani::unwind(26)]
#[kani::stub(alloc::fmt::format, nofmt)]
fn h_gcm_split_23_23_23() {
    gcm_split_body(23, 23, 23);
}

//@ props: C06
//@ tier: thorough
//@ functions: crypto::aesgcm::AesGcm256::encrypt (unaligned pieces, pending block handling); AesGcm256::into_tag; AesGcm256::decrypt
//@ bounds: CONCRETE message length 24 cut at 0 and 0 (thorough tier: 103 enumerated splits over lengths 0,1,2,15,16,17,20,23,24 incl. every block-boundary alignment); symbolic message bytes, key, nonce
//@ stubs: AES block function / GHASH multiply are the model primitives; alloc::fmt::format
//@ outside: other lengths/splits; real AES/GHASH values (suite's NIST vectors)
//@ replay: verif_replay_aesgcm::gcm_split len=24 c1=0 c2=0
#[kani::proof]
#[kani::unwind(26)]
#[kani::stub(alloc::fmt::format, nofmt)]
fn h_gcm_split_24_0_0() {
    gcm_split_body(24, 0, 0);
}

//@ props: C06
//@ tier: thorough
//@ functions: crypto::aesgcm::AesGcm256::encrypt (unaligned pieces, pending block handling); AesGcm256::into_tag; AesGcm256::decrypt
//@ bounds: CONCRETE message length 24 cut at 0 and 1 (thorough tier: 103 enumerated splits over lengths 0,1,2,15,16,17,20,23,24 incl. every block-boundary alignment); symbolic message bytes, key, nonce
//@ stubs: AES block function / GHASH multiply are the model primitives; alloc::fmt::format
//@ outside: other lengths/splits; real AES/GHASH values (suite's NIST vectors)
//@ replay: verif_replay_aesgcm::gcm_split len=24 c1=0 c2=1
#[kani::proof]
#[kani::unwind(26)]
#[kani::stub(alloc::fmt::format, nofmt)]
fn h_gcm_split_24_0_1() {
    gcm_split_body(24, 0, 1);
}

//@ props: C06
//@ tier: thorough
//@ functions: crypto::aesgcm::AesGcm256::encrypt (unaligned pieces, pending block handling); AesGcm256::into_tag; AesGcm256::decrypt
//@ bounds: CONCRETE message length 24 cut at 0 and 16 (thorough tier: 103 enumerated splits over lengths 0,1,2,15,16,17,20,23,24 incl. every block-boundary alignment); symbolic message bytes, key, nonce
//@ stubs: AES block function / GHASH multiply are the model primitives; alloc::fmt::format
//@ outside: other lengths/splits; real AES/GHASH values (suite's NIST vectors)
//@ replay: verif_replay_aesgcm::gcm_split len=24 c1=0 c2=16
#[kani::proof]
#[kani::unwind(26)]
#[kani::stub(alloc::fmt::format, nofmt)]
fn h_gcm_split_24_0_16() {
    gcm_split_body(24, 0, 16);
}

//@ props: C06
//@ tier: thorough
//@ functions: crypto::aesgcm::AesGcm256::encrypt (unaligned pieces, pending block handling); AesGcm256::into_tag; AesGcm256::decrypt
//@ bounds: CONCRETE message length 24 cut at 0 and 17 (thorough tier: 103 enumerated splits over lengths 0,1,2,15,16,17,20,23,24 incl. every block-boundary alignment); symbolic message bytes, key, nonce
//@ stubs: AES block function / GHASH multiply are the model primitives; alloc::fmt::format
//@ outside: other lengths/splits; real AES/GHASH values (suite's NIST vectors)
//@ replay: verif_replay_aesgcm::gcm_split len=24 c1=0 c2=17
#[kani::proof]
#[kani::unwind(26)]
#[kani::stub(alloc::fmt::format, nofmt)]
fn h_gcm_split_24_0_17() {
    gcm_split_body(24, 0, 17);
}

//@ props: C06
//@ tier: thorough
//@ functions: crypto::aesgcm::AesGcm256::encrypt (unaligned pieces, pending block handling); AesGcm256::into_tag; AesGcm256::decrypt
//@ bounds: CONCRETE message length 24 cut at 1 and 1 (thorough tier: 103 enumerated splits over lengths 0,1,2,15,16,17,20,23,24 incl. every block-boundary alignment); symbolic message bytes, key, nonce
//@ stubs: AES block function / GHASH multiply are the model primitives; alloc::fmt::format
//@ outside: other lengths/splits; real AES/GHASH values (suite's NIST vectors)
//@ replay: verif_replay_aesgcm::gcm_split len=24 c1=1 c2=1
#[kani::proof]
#[kani::unwind(26)]
#[kani::stub(alloc::fmt::format, nofmt)]
fn h_gcm_split_24_1_1() {
    gcm_split_body(24, 1, 1);
}

//@ props: C06
//@ tier: thorough
//@ functions: crypto::aesgcm::AesGcm256::encrypt (unaligned pieces, pending block handling); AesGcm256::into_tag; AesGcm256::decrypt
//@ bounds: CONCRETE message length 24 cut at 1 and 2 (thorough tier: 103 enumerated splits over lengths 0,1,2,15,16,17,20,23,24 incl. every block-boundary alignment); symbolic message bytes, key, nonce
//@ stubs: AES block function / GHASH multiply are the model primitives; alloc::fmt::format
//@ outside: other lengths/splits; real AES/GHASH values (suite's NIST vectors)
//@ replay: verif_replay_aesgcm::gcm_split len=24 c1=1 c2=2
#[kani::proof]
#[kani::unwind(26)]
#[kani::stub(alloc::fmt::format, nofmt)]
fn h_gcm_split_24_1_2() {
    gcm_split_body(24, 1, 2);
}

//@ props: C06
//@ tier: thorough
//@ functions: crypto::aesgcm::AesGcm256::encrypt (unaligned pieces, pending block handling); AesGcm256::into_tag; AesGcm256::decrypt
//@ bounds: CONCRETE message length 24 cut at 1 and 16 (thorough tier: 103 enumerated splits over lengths 0,1,2,15,16,17,20,23,24 incl. every block-boundary alignment); symbolic message bytes, key, nonce
//@ stubs: AES block function / GHASH multiply are the model primitives; alloc::fmt::format
//@ outside: other lengths/splits; real AES/GHASH values (suite's NIST vectors)
//@ replay: verif_replay_aesgcm::gcm_split len=24 c1=1 c2=16
#[kani::proof]
#[kani::unwind(26)]
#[kani::stub(alloc::fmt::format, nofmt)]
fn h_gcm_split_24_1_16() {
    gcm_split_body(24, 1, 16);
}

//@ props: C06
//@ tier: thorough
//@ functions: crypto::aesgcm::AesGcm256::encrypt (unaligned pieces, pending block handling); AesGcm256::into_tag; AesGcm256::decrypt
//@ bounds: CONCRETE message length 24 cut at 1 and 17 (thorough tier: 103 enumerated splits over lengths 0,1,2,15,16,17,20,23,24 incl. every block-boundary alignment); symbolic message bytes, key, nonce
//@ stubs: AES block function / GHASH multiply are the model primitives; alloc::fmt::format
//@ outside: other lengths/splits; real AES/GHASH values (suite's NIST vectors)
//@ replay: verif_replay_aesgcm::gcm_split len=24 c1=1 c2=17
#[kani::proof]
#[kani::unwind(26)]
#[kani::stub(alloc::fmt::format, nofmt)]
fn h_gcm_split_24_1_17() {
    gcm_split_body(24, 1, 17);
}

//@ props: C06
//@ tier: thorough
//@ functions: crypto::aesgcm::AesGcm256::encrypt (unaligned pieces, pending block handling); AesGcm256::into_tag; AesGcm256::decrypt
//@ bounds: CONCRETE message length 24 cut at 1 and 24 (thorough tier: 103 enumerated splits over lengths 0,1,2,15,16,17,20,23,24 incl. every block-boundary alignment); symbolic message bytes, key, nonce
//@ stubs: AES block function / GHASH multiply are the model primitives; alloc::fmt::format
//@ outside: other lengths/splits; real AES/GHASH values (suite's NIST vectors)
//@ replay: verif_replay_aesgcm::gcm_split len=24 c1=1 c2=24
#[kani::proof]
#[kani::unwind(26)]
#[kani::stub(alloc::fmt::format, nofmt)]
fn h_gcm_split_24_1_24() {
    gcm_split_body(24, 1, 24);
}

//@ props: C06
//@ tier: thorough
//@ functions: crypto::aesgcm::AesGcm256::encrypt (unaligned pieces, pending block handling); AesGcm256::into_tag; AesGcm256::decrypt
//@ bounds: CONCRETE message length 24 cut at 12 and 12 (thorough tier: 103 enumerated splits over lengths 0,1,2,15,16,17,20,23,24 incl. every block-boundary alignment); symbolic message bytes, key, nonce
//@ stubs: AES block function / GHASH multiply are the model primitives; alloc::fmt::format
//@ outside: other lengths/splits; real AES/GHASH values (suite's NIST vectors)
//@ replay: verif_replay_aesgcm::gcm_split len=24 c1=12 c2=12
#[kani::proof]
#[kani::unwind(26)]
#[kani::stub(alloc::fmt::format, nofmt)]
fn h_gcm_split_24_12_12() {
    gcm_split_body(24, 12, 12);
}

//@ props: C06
//@ tier: thorough
//@ functions: crypto::aesgcm::AesGcm256::encrypt (unaligned pieces, pending block handling); AesGcm256::into_tag; AesGcm256::decrypt
//@ bounds: CONCRETE message length 24 cut at 12 and 13 (thorough tier: 103 enumerated splits over lengths 0,1,2,15,16,17,20,23,24 incl. every block-boundary alignment); symbolic message bytes, key, nonce
//@ stubs: AES block function / GHASH multiply are the model primitives; alloc::fmt::format
//@ outside: other lengths/splits; real AES/GHASH values (suite's NIST vectors)
//@ replay: verif_replay_aesgcm::gcm_split len=24 c1=12 c2=13
#[kani::proof]
#[kani::unwind(26)]
#[kani::stub(alloc::fmt::format, nofmt)]
fn h_gcm_split_24_12_13() {
    gcm_split_body(24, 12, 13);
}

//@ props: C06
//@ tier: thorough
//@ functions: crypto::aesgcm::AesGcm256::encrypt (unaligned pieces, pending block handling); AesGcm256::into_tag; AesGcm256::decrypt
//@ bounds: CONCRETE message length 24 cut at 12 and 16 (thorough tier: 103 enumerated splits over lengths 0,1,2,15,16,17,20,23,24 incl. every block-boundary alignment); symbolic message bytes, key, nonce
//@ stubs: AES block function / GHASH multiply are the model primitives; alloc::fmt::format
//@ outside: other lengths/splits; real AES/GHASH values (suite's NIST vectors)
//@ replay: verif_replay_aesgcm::gcm_split len=24 c1=12 c2=16
#[kani::proof]
#[kani::unwind(26)]
#[kani::stub(alloc::fmt::format, nofmt)]
fn h_gcm_split_24_12_16() {
    gcm_split_body(24, 12, 16);
}

//@ props: C06
//@ tier: thorough
//@ functions: crypto::aesgcm::AesGcm256::encrypt (unaligned pieces, pending block handling); AesGcm256::into_tag; AesGcm256::decrypt
//@ bounds: CONCRETE message length 24 cut at 12 and 17 (thorough tier: 103 enumerated splits over lengths 0,1,2,15,16,17,20,23,24 incl. every block-boundary alignment); symbolic message bytes, key, nonce
//@ stubs: AES block function / GHASH multiply are the model primitives; alloc::fmt::format
//@ outside: other lengths/splits; real AES/GHASH values (suite's NIST vectors)
//@ replay: verif_replay_aesgcm::gcm_split len=24 c1=12 c2=17
#[kani::proof]
#[kani::unwind(26)]
#[kani::stub(alloc::fmt::format, nofmt)]
fn h_gcm_split_24_12_17() {
    gcm_split_body(24, 12, 17);
}

//@ props: C06
//@ tier: thorough
//@ functions: crypto::aesgcm::AesGcm256::encrypt (unaligned pieces, pending block handling); AesGcm256::into_tag; AesGcm256::decrypt
//@ bounds: CONCRETE message length 24 cut at 12 and 24 (thorough tier: 103 enumerated splits over lengths 0,1,2,15,16,17,20,23,24 incl. every block-boundary alignment); symbolic message bytes, key, nonce
//@ stubs: AES block function / GHASH multiply are the model primitives; alloc::fmt::format
//@ outside: other lengths/splits; real AES/GHASH values (suite's NIST vectors)
//@ replay: verif_replay_aesgcm::gcm_split len=24 c1=12 c2=24
#[kani::proof]
#[kani::unwind(26)]
#[kani::stub(alloc::fmt::format, nofmt)]
fn h_gcm_split_24_12_24() {
    gcm_split_body(24, 12, 24);
}

//@ props: C06
//@ tier: thorough
//@ functions: crypto::aesgcm::AesGcm256::encrypt (unaligned pieces, pending block handling); AesGcm256::into_tag; AesGcm256::decrypt
//@ bounds: CONCRETE message length 24 cut at 15 and 15 (thorough tier: 103 enumerated splits over lengths 0,1,2,15,16,17,20,23,24 incl. every block-boundary alignment); symbolic message bytes, key, nonce
//@ stubs: AES block function / GHASH multiply are the model primitives; alloc::fmt::format
//@ outside: other lengths/splits; real AES/GHASH values (suite's NIST vectors)
//@ replay: verif_replay_aesgcm::gcm_split len=24 c1=15 c2=15
#[kani::proof]
#[kani::unwind(26)]
#[kani::stub(alloc::fmt::format, nofmt)]
fn h_gcm_split_24_15_15() {
    gcm_split_body(24, 15, 15);
}

//@ props: C06
//@ tier: thorough
//@ functions: crypto::aesgcm::AesGcm256::encrypt (unaligned pieces, pending block handling); AesGcm256::into_tag; AesGcm256::decrypt
//@ bounds: CONCRETE message length 24 cut at 15 and 16 (thorough tier: 103 enumerated splits over lengths 0,1,2,15,16,17,20,23,24 incl. every block-boundary alignment); symbolic message bytes, key, nonce
//@ stubs: AES block function / GHASH multiply are the model primitives; alloc::fmt::format
//@ outside: other lengths/splits; real AES/GHASH values (suite's NIST vectors)
//@ replay: verif_replay_aesgcm::gcm_split len=24 c1=15 c2=16
#[kani::proof]
#[kani::unwind(26)]
#[kani::stub(alloc::fmt::format, nofmt)]
fn h_gcm_split_24_15_16() {
    gcm_split_body(24, 15, 16);
}

//@ props: C06
//@ tier: thorough
//@ functions: crypto::aesgcm::AesGcm256::encrypt (unaligned pieces, pending block handling); AesGcm256::into_tag; AesGcm256::decrypt
//@ bounds: CONCRETE message length 24 cut at 15 and 24 (thorough tier: 103 enumerated splits over lengths 0,1,2,15,16,17,20,23,24 incl. every block-boundary alignment); symbolic message bytes, key, nonce
//@ stubs: AES block function / GHASH multiply are the model primitives; alloc::fmt::format
//@ outside: other lengths/splits; real AES/GHASH values (suite's NIST vectors)
//@ replay: verif_replay_aesgcm::gcm_split len=24 c1=15 c2=24
#[kani::proof]
#[kani::unwind(26)]
#[kani::stub(alloc::fmt::format, nofmt)]
fn h_gcm_split_24_15_24() {
    gcm_split_body(24, 15, 24);
}

//@ props: C06
//@ tier: thorough
//@ functions: crypto::aesgcm::AesGcm256::encrypt (unaligned pieces, pending block handling); AesGcm256::into_tag; AesGcm256::decrypt
//@ bounds: CONCRETE message length 24 cut at 16 and 17 (thorough tier: 103 enumerated splits over lengths 0,1,2,15,16,17,20,23,24 incl. every block-boundary alignment); symbolic message bytes, key, nonce
//@ stubs: AES block function / GHASH multiply are the model primitives; alloc::fmt::format
//@ outside: other lengths/splits; real AES/GHASH values (suite's NIST vectors)
//@ replay: verif_replay_aesgcm::gcm_split len=24 c1=16 c2=17
#[kani::proof]
#[kani::unwind(26)]
#[kani::stub(alloc::fmt::format, nofmt)]
fn h_gcm_split_24_16_17() {
    gcm_split_body(24, 16, 17);
}

//@ props: C06
//@ tier: thorough
//@ functions: crypto::aesgcm::AesGcm256::encrypt (unaligned pieces, pending block handling); AesGcm256::into_tag; AesGcm256::decrypt
//@ bounds: CONCRETE message length 24 cut at 16 and 24 (thorough tier: 103 enumerated splits over lengths 0,1,2,15,16,17,20,23,24 incl. every block-boundary alignment); symbolic message bytes, key, nonce
//@ stubs: AES block function / GHASH multiply are the model primitives; alloc::fmt::format
//@ outside: other lengths/splits; real AES/GHASH values (suite's NIST vectors)
//@ replay: verif_replay_aesgcm::gcm_split len=24 c1=16 c2=24
#[kani::proof]
#[kani::unwind(26)]
#[kani::stub(alloc::fmt::format, nofmt)]
fn h_gcm_split_24_16_24() {
    gcm_split_body(24, 16, 24);
}

//@ props: C06
//@ tier: thorough
//@ functions: crypto::aesgcm::AesGcm256::encrypt (unaligned pieces, pending block handling); AesGcm256::into_tag; AesGcm256::decrypt
//@ bounds: CONCRETE message length 24 cut at 23 and 23 (thorough tier: 103 enumerated splits over lengths 0,1,2,15,16,17,20,23,24 incl. every block-boundary alignment); symbolic message bytes, key, nonce
//@ stubs: AES block function / GHASH multiply are the model primitives; alloc::fmt::format
//@ outside: other lengths/splits; real AES/GHASH values (suite's NIST vectors)
//@ replay: verif_replay_aesgcm::gcm_split len=24 c1=23 c2=23
#[kani::proof]
#[kani::unwind(26)]
#[kani::stub(alloc::fmt::format, nofmt)]
fn h_gcm_split_24_23_23() {
    gcm_split_body(24, 23, 23);
}

//@ props: C06
//@ tier: thorough
//@ functions: crypto::aesgcm::AesGcm256::encrypt (unaligned pieces, pending block handling); AesGcm256::into_tag; AesGcm256::decrypt
//@ bounds: CONCRETE message length 24 cut at 23 and 24 (thorough tier: 103 enumerated splits over lengths 0,1,2,15,16,17,20,23,24 incl. every block-boundary alignment); symbolic message bytes, key, nonce
//@ stubs: AES block function / GHASH multiply are the model primitives; alloc::fmt::format
//@ outside: other lengths/splits; real AES/GHASH values (suite's NIST vectors)
//@ replay: verif_replay_aesgcm::gcm_split len=24 c1=23 c2=24
#[kani::proof]
#[kani::unwind(26)]
#[kani::stub(alloc::fmt::format, nofmt)]
fn h_gcm_split_24_23_24() {
    gcm_split_body(24, 23, 24);
}

//@ props: C06
//@ tier: thorough
//@ functions: crypto::aesgcm::AesGcm256::encrypt (unaligned pieces, pending block handling); AesGcm256::into_tag; AesGcm256::decrypt
//@ bounds: CONCRETE message length 24 cut at 24 and 24 (thorough tier: 103 enumerated splits over lengths 0,1,2,15,16,17,20,23,24 incl. every block-boundary alignment); symbolic message bytes, key, nonce
//@ stubs: AES block function / GHASH multiply are the model primitives; alloc::fmt::format
//@ outside: other lengths/splits; real AES/GHASH values (suite's NIST vectors)
//@ replay: verif_replay_aesgcm::gcm_split len=24 c1=24 c2=24
#[kani::proof]
#[kani::unwind(26)]
#[kani::stub(alloc::fmt::format, nofmt)]
fn h_gcm_split_24_24_24() {
    gcm_split_body(24, 24, 24);
}

fn gcm_split_body(len: usize, c1: usize, c2: usize) {
    let key: Key = [kani::any(); 32];
    let nonce: Nonce = [kani::any(); 12];
    let msg: [u8; 24] = kani::any();
    let (want_ct, want_tag) = reference_gcm(&key, &nonce, &msg, len);
    let mut buf = msg;
    let mut c = model_build(&key, &nonce);
    c.encrypt(&mut buf[..c1]);
    c.encrypt(&mut buf[c1..c2]);
    c.encrypt(&mut buf[c2..len]);
    let tag = c.into_tag();
    let mut i = 0;
    while i < 24 {
        if i < len {
            assert!(buf[i] == want_ct[i], "ciphertext independent of how the message is split into calls");
        }
        i += 1;
    }
    let mut j = 0;
    while j < 16 {
        assert!(tag[j] == want_tag[j], "tag equals the one-shot GCM tag for every split");
        j += 1;
    }
    // decrypt: same tag from the ciphertext, plaintext restored
    let mut d = model_build(&key, &nonce);
    let t2 = d.decrypt(&mut buf[..len]);
    let mut k = 0;
    while k < 16 {
        assert!(t2[k] == want_tag[k], "decrypt recomputes the same tag");
        k += 1;
    }
    let mut m = 0;
    while m < 24 {
        if m < len {
            assert!(buf[m] == msg[m], "decrypt restores the message");
        }
        m += 1;
    }
    kani::cover!(true, "composition executed to the end");
    core::mem::forget(d);
}

/// keystream byte of the cipher's key/iv at absolute stream position `p` (ghost accessor)
pub(crate) fn ks_at(c: &AesGcm256, p: u64) -> u8 {
    c.cipher.ks_byte(p)
}

/// cipher state of a chunk in which `off` (<= 4) bytes were already encrypted: keystream position
/// 16 + off, the `off` ciphertext bytes pending in the current GHASH block (loop-free)
pub(crate) fn model_build_at(key: &Key, nonce: &Nonce, off: u64, pending: [u8; 4]) -> AesGcm256 {
    let mut c = model_build(key, nonce);
    c.cipher.pos = 16 + off;
    c.bytes_encrypted = off;
    let mut v = Vec::with_capacity(BLOCK_SIZE);
    v.extend_from_slice(&pending);
    unsafe { v.set_len(off as usize) };
    c.current_block = v;
    c
}
