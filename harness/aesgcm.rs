// Harness module appended to the real mla/src/crypto/aesgcm.rs (child module: sees private
// fields of AesGcm256).
#![allow(dead_code, unused_imports)]
use super::*;
extern crate alloc;
use crate::verif_common::*;
use crate::{exclude_known, is_known, replay_cap};

/// Loop-free construction of the *real* `AesGcm256` struct through the model-crate constructors;
/// same field values as `AesGcm256::new(key, nonce, b"")` (checked by `h_gcm_new_equiv`).
pub(crate) fn model_build(key: &Key, nonce: &Nonce) -> AesGcm256 {
    let aes = Aes256::model_new(key);
    let mut cb = [0u8; 16];
    cb[..12].copy_from_slice(nonce);
    cb[15] = 1;
    let iv = u128::from_be_bytes(cb);
    let h = aes.enc(0);
    let mut cipher = Aes256Ctr::model_new(aes, iv);
    cipher.seek(BLOCK_SIZE as u64);
    AesGcm256 {
        cipher,
        ghash: GHash::model_new(h),
        associated_data_bits_len: 0,
        current_block: Vec::new(),
        bytes_encrypted: 0,
    }
}

/// ghost accessors used by harnesses of other modules
pub(crate) fn ghost_iv(c: &AesGcm256) -> u128 {
    c.cipher.iv
}
pub(crate) fn ghost_key(c: &AesGcm256) -> (u128, u128) {
    (c.cipher.c.k0, c.cipher.c.k1)
}
pub(crate) fn ghost_pos(c: &AesGcm256) -> u64 {
    c.cipher.pos
}
pub(crate) fn ghost_ghash(c: &AesGcm256) -> (u128, u128) {
    (c.ghash.h, c.ghash.y)
}
