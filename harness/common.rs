// Shared harness helpers, mounted as `crate::verif_common` in the overlay copy of the `mla` crate
// (see bin/overlay.py). Nothing here models MLA code: these are the *environment* — abstract
// byte streams and sinks that carry lengths and positions only — and the two cheap stubs that make
// error paths tractable (error *text* is outside every property).
#![allow(dead_code)]

use std::io::{self, Read, Seek, SeekFrom, Write};

/// stub for `alloc::fmt::format`: error messages are never inspected by a property
pub fn nofmt(_: core::fmt::Arguments<'_>) -> String {
    String::new()
}

/// stub for `<io::Error as From<mla::errors::Error>>::from`: keeps Ok/Err, forgets the payload
/// (cuts the mutually recursive io::Error / Error drop glue)
pub fn cheap_from(e: crate::errors::Error) -> io::Error {
    core::mem::forget(e);
    io::Error::from(io::ErrorKind::Other)
}

/// ghost: last absolute seek target / number of seeks of ANY `Abs` (readable when the stream is
/// hidden behind a trait object)
pub static mut LAST_SEEK_TARGET: u64 = 0;
pub static mut SEEKS: u32 = 0;

/// zero-sized error used by the stub below
#[derive(Debug)]
pub struct CheapErr;
impl core::fmt::Display for CheapErr {
    fn fmt(&self, _f: &mut core::fmt::Formatter<'_>) -> core::fmt::Result {
        Ok(())
    }
}
impl std::error::Error for CheapErr {}
/// stub for `<Box<dyn Error + Send + Sync> as From<&str>>::from` (what `io::Error::new(kind, "text")`
/// uses to box its message): a zero-sized error instead of a heap `String` — error text is outside
/// every property, and the drop glue of the String-backed box is what explodes
pub fn cheap_box_err(_s: &str) -> Box<dyn std::error::Error + Send + Sync> {
    Box::new(CheapErr)
}

/// stub for `std::io::Error::new`: same kind, payload forgotten (no boxed `dyn Error`, whose drop
/// glue the model checker cannot resolve)
pub fn err_new<E>(kind: io::ErrorKind, e: E) -> io::Error
where
    E: Into<Box<dyn std::error::Error + Send + Sync>>,
{
    core::mem::forget(e);
    io::Error::from(kind)
}

/// Abstract seekable stream: a length and a position, no data.
/// `seek` follows `std::io::Cursor`: any non-negative target is accepted (also beyond `len`);
/// a negative or overflowing target is an `InvalidInput` error when `strict` is set, and is
/// excluded by assumption otherwise (noted in the harness bounds).
pub struct Abs {
    pub len: u64,
    pub pos: u64,
    /// ghost: number of seeks and last absolute target
    pub seeks: u32,
    pub last_target: u64,
    /// ghost: number of bytes handed out by `read`
    pub read_total: u64,
    pub strict: bool,
    /// when set, `read` fills the caller's buffer (<= 16 bytes) with nondeterministic bytes
    pub nondet_data: bool,
    /// total number of bytes `read` may still hand out (then it reports end of stream): lets a
    /// harness stop a parser right after the header field under study
    pub budget: u64,
    /// number of `read` calls that may still deliver data (a *concrete* counter, so that the
    /// symbolic executor itself sees the end of data): later calls report end of stream
    pub max_calls: u32,
    pub calls: u32,
    /// header-parsing mode: a read delivers the whole requested buffer or nothing (keeps the
    /// count concrete for the symbolic executor; `read_exact` fails either way on a short stream)
    pub all_or_nothing: bool,
    /// number of seeks that may still succeed (concrete counter); later seeks fail with an error —
    /// lets a harness end a parser right after the position arithmetic under study
    pub max_seeks: u32,
    /// when set, the first `read` returns at most 7 bytes (a source that hands out fewer bytes than
    /// asked; nondeterministic counts on every call did not finish in 20 min)
    pub short_reads: bool,
    /// which read calls (bit i = call i+1) are short when `short_reads` is set
    pub short_mask: u32,
}

impl Abs {
    pub fn new(len: u64, pos: u64) -> Self {
        Self {
            len,
            pos,
            seeks: 0,
            last_target: 0,
            read_total: 0,
            strict: false,
            nondet_data: false,
            budget: u64::MAX,
            max_calls: u32::MAX,
            calls: 0,
            all_or_nothing: false,
            max_seeks: u32::MAX,
            short_reads: false,
            short_mask: 0b001,
        }
    }
    pub fn strict(len: u64, pos: u64) -> Self {
        let mut s = Self::new(len, pos);
        s.strict = true;
        s
    }
}

impl Seek for Abs {
    fn seek(&mut self, p: SeekFrom) -> io::Result<u64> {
        // counters move before any branch: CBMC merges states at the function's return, and a
        // counter that differs between the merged paths would stop being a constant
        self.seeks += 1;
        unsafe { SEEKS += 1 };
        if self.seeks > self.max_seeks {
            return Err(io::Error::from(io::ErrorKind::InvalidInput));
        }
        let np: i128 = match p {
            SeekFrom::Start(x) => x as i128,
            SeekFrom::Current(d) => self.pos as i128 + d as i128,
            SeekFrom::End(d) => self.len as i128 + d as i128,
        };
        let ok = np >= 0 && np <= u64::MAX as i128;
        if self.strict {
            if !ok {
                return Err(io::Error::from(io::ErrorKind::InvalidInput));
            }
        } else {
            kani::assume(ok);
        }
        self.pos = np as u64;
        self.last_target = self.pos;
        unsafe {
            LAST_SEEK_TARGET = self.pos;
            ABS_POS = self.pos;
        }
        Ok(self.pos)
    }
}

impl Read for Abs {
    fn read(&mut self, buf: &mut [u8]) -> io::Result<usize> {
        self.calls = self.calls.saturating_add(1);
        if self.calls > self.max_calls {
            return Ok(0);
        }
        let avail = core::cmp::min(self.len.saturating_sub(self.pos), self.budget);
        let n = if self.all_or_nothing {
            if avail >= buf.len() as u64 { buf.len() } else { 0 }
        } else if self.short_reads {
            // a source some of whose reads (per `short_mask`) hand out at most 7 bytes (fewer than
            // a tag, fewer than asked), the other reads everything asked
            if self.calls <= 8 && (self.short_mask >> (self.calls - 1)) & 1 == 1 {
                core::cmp::min(core::cmp::min(avail, buf.len() as u64), 7) as usize
            } else {
                core::cmp::min(avail, buf.len() as u64) as usize
            }
        } else {
            core::cmp::min(avail, buf.len() as u64) as usize
        };
        self.budget -= n as u64;
        if self.nondet_data {
            // only used with small fixed-size header reads
            let mut i = 0;
            while i < n && i < 16 {
                buf[i] = kani::any();
                i += 1;
            }
        }
        self.pos += n as u64;
        self.read_total += n as u64;
        unsafe { ABS_POS = self.pos };
        Ok(n)
    }
}
/// ghost: position of the last `Abs` that was read from or moved (readable behind trait objects)
pub static mut ABS_POS: u64 = 0;

/// ghost mirror of the remaining length of the (single) `AbsSrc` of a harness
pub static mut ABSSRC_LEFT: u64 = 0;

/// Abstract forward-only source for the fail-safe readers: `left` bytes remain; each `read`
/// returns everything that fits, or — with `short_reads` — any count in 1..=fit.
pub struct AbsSrc {
    pub left: u64,
    pub short_reads: bool,
    /// ghost
    pub reads: u32,
    pub given: u64,
}

impl AbsSrc {
    pub fn new(left: u64, short_reads: bool) -> Self {
        Self {
            left,
            short_reads,
            reads: 0,
            given: 0,
        }
    }
}

impl Read for AbsSrc {
    fn read(&mut self, buf: &mut [u8]) -> io::Result<usize> {
        let fit = core::cmp::min(self.left, buf.len() as u64);
        let n: u64 = if self.short_reads {
            let n: u64 = kani::any();
            kani::assume(n <= fit && (n > 0 || fit == 0));
            n
        } else {
            fit
        };
        self.left -= n;
        unsafe { ABSSRC_LEFT = self.left };
        self.given += n;
        self.reads += 1;
        Ok(n as usize)
    }
}

impl<'a> crate::layers::traits::LayerFailSafeReader<'a, AbsSrc> for AbsSrc {
    fn into_inner(self) -> Option<Box<dyn 'a + crate::layers::traits::LayerFailSafeReader<'a, AbsSrc>>> {
        None
    }
    fn into_raw(self: Box<Self>) -> AbsSrc {
        *self
    }
}

/// ghost switch (a static, not a field of `Rec`: an extra field changed the struct layout and made
/// every writer harness explode): when non-zero the FIRST write a `Rec` sees accepts only this
/// many bytes, later writes everything
pub static mut REC_FIRST_ACCEPT: usize = 0;

/// Recording sink: counts bytes, keeps the first `KEEP` of them, counts flushes; optionally
/// accepts only a nondeterministic part (>= 1 byte) of each write.
pub const KEEP: usize = 44;
pub struct Rec {
    pub n: u64,
    pub first: [u8; KEEP],
    pub writes: u32,
    pub flushes: u32,
    pub partial: bool,
    pub fail_writes: bool,
}

impl Rec {
    pub fn new() -> Self {
        Self {
            n: 0,
            first: [0u8; KEEP],
            writes: 0,
            flushes: 0,
            partial: false,
            fail_writes: false,
        }
    }
}

impl Write for Rec {
    fn write(&mut self, buf: &[u8]) -> io::Result<usize> {
        if self.fail_writes && kani::any() {
            return Err(io::Error::from(io::ErrorKind::Other));
        }
        let k = if self.partial {
            let k: usize = kani::any();
            kani::assume(k <= buf.len() && (k > 0 || buf.is_empty()));
            k
        } else if unsafe { REC_FIRST_ACCEPT } > 0 && self.writes == 0 {
            core::cmp::min(unsafe { REC_FIRST_ACCEPT }, buf.len())
        } else {
            buf.len()
        };
        // keep only the first KEEP bytes (memcpy: no loop to unwind, whatever the write size)
        let at = core::cmp::min(self.n, KEEP as u64) as usize;
        let m = core::cmp::min(k, KEEP - at);
        self.first[at..at + m].copy_from_slice(&buf[..m]);
        self.n += k as u64;
        self.writes += 1;
        Ok(k)
    }
    fn flush(&mut self) -> io::Result<()> {
        self.flushes += 1;
        unsafe {
            REC_FLUSHES += 1;
        }
        Ok(())
    }
}
/// ghost: flushes that reached any `Rec` (observable when the sink sits behind boxed layers)
pub static mut REC_FLUSHES: u32 = 0;

impl<'a> crate::layers::traits::LayerWriter<'a, Rec> for Rec {
    fn into_inner(self) -> Option<crate::layers::traits::InnerWriterType<'a, Rec>> {
        None
    }
    fn into_raw(self: Box<Self>) -> Rec {
        *self
    }
    fn finalize(&mut self) -> Result<(), crate::errors::Error> {
        Ok(())
    }
}

impl<'a> crate::layers::traits::LayerReader<'a, Abs> for Abs {
    fn into_inner(self) -> Option<Box<dyn 'a + crate::layers::traits::LayerReader<'a, Abs>>> {
        None
    }
    fn into_raw(self: Box<Self>) -> Abs {
        *self
    }
    fn initialize(&mut self) -> Result<(), crate::errors::Error> {
        Ok(())
    }
}

/// compile-time decimal parse of an optional environment value (tier-dependent bounds)
pub const fn env_u32(s: Option<&str>, default: u32) -> u32 {
    match s {
        None => default,
        Some(s) => {
            let b = s.as_bytes();
            let mut i = 0;
            let mut v = 0u32;
            while i < b.len() {
                v = v * 10 + (b[i] - b'0') as u32;
                i += 1;
            }
            v
        }
    }
}

/// comma-separated ids of known findings (from /verif/known_findings.json, status "known") whose
/// regions are carved out of the main harnesses; each has an expected-to-fail witness harness.
pub const KNOWN: &str = match option_env!("VERIF_KNOWN") {
    Some(s) => s,
    None => "",
};

/// is finding `id` listed as known? (compile-time string search in `KNOWN`)
pub const fn known(id: &str) -> bool {
    let k = KNOWN.as_bytes();
    let n = id.as_bytes();
    if n.is_empty() || k.len() < n.len() {
        return false;
    }
    let mut i = 0;
    while i + n.len() <= k.len() {
        let mut j = 0;
        while j < n.len() && k[i + j] == n[j] {
            j += 1;
        }
        let end_ok = i + n.len() == k.len() || k[i + n.len()] == b',';
        let start_ok = i == 0 || k[i - 1] == b',';
        if j == n.len() && end_ok && start_ok {
            return true;
        }
        i += 1;
    }
    false
}

/// carve the region of a known finding out of a harness (no effect unless the id is listed);
/// the lookup is evaluated at compile time so no loop reaches the model checker
#[macro_export]
macro_rules! exclude_known {
    ($id:literal, $region:expr) => {{
        const K: bool = $crate::verif_common::known($id);
        if K {
            kani::assume(!($region));
        }
    }};
}
/// `true` iff the finding is listed (compile-time constant)
#[macro_export]
macro_rules! is_known {
    ($id:literal) => {{
        const K: bool = $crate::verif_common::known($id);
        K
    }};
}

/// witness size cap for native replay: set (VERIF_REPLAY_CAP=1) only when a failing harness is
/// re-queried for a counterexample small enough to be materialised with the real crate
#[macro_export]
macro_rules! replay_cap {
    () => {{
        const C: bool = option_env!("VERIF_REPLAY_CAP").is_some();
        C
    }};
}
