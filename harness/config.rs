// Harness module appended to the real mla/src/config.rs — C07: where the archive secrets come from
// and how candidate private keys are tried. (EncryptionConfig lives in layers::encrypt; its fields
// are reached through the crate-visible accessors of ArchiveWriterConfig.)
#![allow(dead_code, unused_imports, clippy::all)]
use super::*;
extern crate alloc;
use crate::verif_common::*;

//@ props: C07
//@ functions: <layers::encrypt::EncryptionConfig as Default>::default; ArchiveWriterConfig::new; ArchiveWriterConfig::default; ArchiveWriterConfig::{encryption_key, encryption_nonce}
//@ bounds: arbitrary OS entropy (two independent 32-byte blocks); both constructors
//@ stubs: model rand / rand_chacha (OS entropy = ghost symbolic array; generator output = injective function of the seed); alloc::fmt::format
//@ outside: statistical quality of the real OS generator and of ChaCha20; cross-process behaviour
//@ replay: verif_replay_ecc::cfg_fresh
#[kani::proof]
#[kani::unwind(34)]
#[kani::stub(alloc::fmt::format, nofmt)]
fn h_cfg_fresh_secrets() {
    let e0: [u8; 32] = kani::any();
    let e1: [u8; 32] = kani::any();
    unsafe {
        rand::ghost::OS_ENTROPY[0] = e0;
        rand::ghost::OS_ENTROPY[1] = e1;
        rand::ghost::OS_CALLS = 0;
        rand::ghost::FIXED_SEEDS = 0;
    }
    let a = ArchiveWriterConfig::new();
    let b = ArchiveWriterConfig::default();
    unsafe {
        assert!(rand::ghost::OS_CALLS == 2, "each configuration draws its own OS entropy");
        assert!(rand::ghost::FIXED_SEEDS == 0, "no generator is created from a fixed seed");
    }
    // with this generator model the first 32 output bytes ARE the seed: key = entropy block
    assert!(*a.encryption_key() == e0, "the symmetric key is the generator output for fresh OS entropy (not a constant)");
    assert!(*b.encryption_key() == e1);
    let mut i = 0;
    while i < 8 {
        assert!(a.encryption_nonce()[i] == rand_chacha::ChaChaRng::byte_at(&e0, 32 + i as u64), "the archive nonce is the next generator output");
        i += 1;
    }
    kani::cover!(e0 != e1, "two archives, different entropy");
    // injectivity: different entropy, different key
    if e0 != e1 {
        assert!(a.encryption_key() != b.encryption_key(), "two archives created with identical inputs share a key");
    }
    core::mem::forget(a);
    core::mem::forget(b);
}
