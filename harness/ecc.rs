// Harness module appended to the real mla/src/crypto/ecc.rs (child module `verif_ecc`).
// DH / HKDF / AES / GHASH are the model crates: what is decided is the ECIES *protocol logic* —
// which inputs reach which primitive, one wrapped key per recipient, unwrap only on a verified tag.
#![allow(dead_code, unused_imports, clippy::all)]
use super::*;
extern crate alloc;
use crate::verif_common::*;
use rand::SeedableRng;
use rand_chacha::ChaChaRng;

/// reference of the wrapping key the format prescribes: HKDF-SHA256(salt none, ikm = X25519(a, B),
/// info = "KEY DERIVATION") — over the model primitives
fn ref_wrap_key(secret: &[u8; 32], their_public: &[u8; 32]) -> [u8; 32] {
    let mut shared = [0u8; 32];
    let mut i = 0;
    while i < 32 {
        shared[i] = secret[i] ^ their_public[i] ^ x25519_dalek::MASK;
        i += 1;
    }
    let mut out = [0u8; 32];
    let mut j = 0;
    while j < 32 {
        out[j] = Hkdf::<Sha256>::model_okm(&shared, b"KEY DERIVATION", j);
        j += 1;
    }
    out
}

//@ props: C07 C06 C03
//@ functions: crypto::ecc::store_key_for_multi_recipients; crypto::ecc::derive_key; crypto::ecc::retrieve_key; AesGcm256::{new, encrypt, into_tag, decrypt} over model primitives
//@ bounds: 2 recipients with arbitrary 32-byte secrets; arbitrary 32-byte archive key; arbitrary OS entropy for the ephemeral scalar; one foreign candidate key
//@ stubs: model x25519 (commutative by construction), model HKDF/SHA-256, model aes/ctr/ghash, model rand; alloc::fmt::format
//@ outside: strength of X25519/HKDF/AES-GCM; more than 2 recipients (the loop body is the same)
//@ timeout: 1500
//@ replay: verif_replay_ecc::ecc_wrap
#[kani::proof]
#[kani::unwind(34)]
#[kani::stub(alloc::fmt::format, nofmt)]
fn h_ecc_wrap_unwrap() {
    let s0: [u8; 32] = kani::any();
    let s1: [u8; 32] = kani::any();
    let key: [u8; KEY_SIZE] = kani::any();
    let ent: [u8; 32] = kani::any();
    unsafe {
        rand::ghost::OS_ENTROPY[0] = ent;
        rand::ghost::OS_CALLS = 0;
    }
    let r0 = StaticSecret::from(s0);
    let r1 = StaticSecret::from(s1);
    let pubs = [PublicKey::from(&r0), PublicKey::from(&r1)];
    let mut rng = ChaChaRng::from_os_rng();
    let persist = match store_key_for_multi_recipients(&pubs, &key, &mut rng) {
        Ok(p) => p,
        Err(e) => {
            core::mem::forget(e);
            assert!(false, "key wrapping fails");
            return;
        }
    };
    assert!(persist.encrypted_keys.len() == 2, "one wrapped key per recipient");
    // the ephemeral public key is derived from OS entropy drawn for this archive
    let eph_pub = PublicKey::from(&StaticSecret::from(ent));
    assert!(persist.public == *eph_pub.as_bytes(), "header carries the public key of an ephemeral scalar taken from fresh OS entropy");
    // the wrapping key of recipient i is HKDF(X25519(ephemeral, recipient_i), "KEY DERIVATION")
    let wk0 = ref_wrap_key(&ent, pubs[0].as_bytes());
    let mut c = crate::crypto::aesgcm::verif_aesgcm::model_build(&wk0, ECIES_NONCE);
    let mut expect = key;
    c.encrypt(&mut expect);
    let t = c.into_tag();
    assert!(persist.encrypted_keys[0].key == expect, "wrapped key = AES-GCM(HKDF-SHA256(X25519(eph, recipient), 'KEY DERIVATION'), nonce 'ECIES NONCE0') of the archive key");
    assert!(persist.encrypted_keys[0].tag[..] == t[..], "wrapped key carries its GCM tag");
    // ... and so is every further entry: same label, same fixed nonce, the recipient's own DH secret
    {
        let wk1e = ref_wrap_key(&ent, pubs[1].as_bytes());
        let mut c = crate::crypto::aesgcm::verif_aesgcm::model_build(&wk1e, ECIES_NONCE);
        let mut expect1 = key;
        c.encrypt(&mut expect1);
        let t1 = c.into_tag();
        assert!(persist.encrypted_keys[1].key == expect1, "second recipient's entry = AES-GCM(HKDF-SHA256(X25519(eph, recipient 2), 'KEY DERIVATION'), nonce 'ECIES NONCE0') of the archive key");
        assert!(persist.encrypted_keys[1].tag[..] == t1[..], "second recipient's entry carries its GCM tag");
    }
    // IDEAL-MAC ASSUMPTION for the model tag function (which, being linear, has trivial collisions
    // a real GCM tag has only with probability 2^-128): the entry wrapped for recipient 1 does not
    // verify under recipient 2's wrapping key
    {
        let wk1 = ref_wrap_key(&s1, &persist.public);
        let mut c1 = crate::crypto::aesgcm::verif_aesgcm::model_build(&wk1, ECIES_NONCE);
        let mut d = persist.encrypted_keys[0].key;
        let t1 = c1.decrypt(&mut d);
        kani::assume(t1[..] != persist.encrypted_keys[0].tag[..]);
    }
    // each recipient, and only a recipient, unwraps
    match retrieve_key(&persist, &r1) {
        Ok(Some(k)) => assert!(k == key, "recipient 2 recovers the archive key"),
        other => {
            core::mem::forget(other);
            assert!(false, "a recipient cannot unwrap the key");
        }
    }
    match retrieve_key(&persist, &r0) {
        Ok(Some(k)) => assert!(k == key, "recipient 1 recovers the archive key"),
        other => {
            core::mem::forget(other);
            assert!(false, "a recipient cannot unwrap the key");
        }
    }
    kani::cover!(true, "wrap and both unwraps executed");
    core::mem::forget(persist);
}

//@ props: C03 C07
//@ functions: crypto::ecc::retrieve_key (tag check before a key is returned)
//@ bounds: header with 2 wrapped-key entries whose key bytes and tags are ARBITRARY (attacker-chosen: stored tag = tag the candidate's wrapping key assigns to the stored bytes XOR an arbitrary 128-bit difference); arbitrary candidate private key and ephemeral public key
//@ stubs: model x25519 / HKDF / aes / ctr / ghash; alloc::fmt::format
//@ outside: strength of AES-GCM as a MAC (here: the model tag function)
//@ timeout: 1500
//@ replay: verif_replay_ecc::ecc_unwrap_forged _:skip128 d0lo:u64 d0hi:u64 d1lo:u64 d1hi:u64
#[kani::proof]
#[kani::unwind(34)]
#[kani::stub(alloc::fmt::format, nofmt)]
fn h_ecc_unwrap_only_verified() {
    let sk: [u8; 32] = kani::any();
    let public: [u8; 32] = kani::any();
    let k0: [u8; 32] = kani::any();
    let k1: [u8; 32] = kani::any();
    // difference between the stored tag and the one the candidate key assigns (0 = the entry verifies)
    let (d0lo, d0hi): (u64, u64) = (kani::any(), kani::any());
    let (d1lo, d1hi): (u64, u64) = (kani::any(), kani::any());
    let wk = ref_wrap_key(&sk, &public);
    // tag the model GCM assigns to each stored ciphertext under the candidate's wrapping key
    let tag_of = |ct: &[u8; 32], lo: u64, hi: u64| -> [u8; 16] {
        let mut c = crate::crypto::aesgcm::verif_aesgcm::model_build(&wk, ECIES_NONCE);
        let mut d = *ct;
        let t = c.decrypt(&mut d);
        let mut o = [0u8; 16];
        o.copy_from_slice(&t[..]);
        let (l, h) = (lo.to_le_bytes(), hi.to_le_bytes());
        let mut i = 0;
        while i < 8 {
            o[i] ^= l[i];
            o[8 + i] ^= h[i];
            i += 1;
        }
        o
    };
    let e0 = KeyAndTag { key: k0, tag: tag_of(&k0, d0lo, d0hi) };
    let e1 = KeyAndTag { key: k1, tag: tag_of(&k1, d1lo, d1hi) };
    let mut v = Vec::with_capacity(2);
    v.push(e0);
    v.push(e1);
    let persist = MultiRecipientPersistent { public, encrypted_keys: v };
    let ok0 = d0lo == 0 && d0hi == 0;
    let ok1 = d1lo == 0 && d1hi == 0;
    kani::cover!(!ok0 && ok1, "only the second entry verifies");
    kani::cover!(!ok0 && !ok1, "no entry verifies");
    let r = retrieve_key(&persist, &StaticSecret::from(sk));
    match r {
        Ok(Some(_k)) => assert!(ok0 || ok1, "a key is returned although no wrapped entry verified under this private key"),
        Ok(None) => assert!(!ok0 && !ok1, "a verifying entry was ignored"),
        Err(e) => {
            core::mem::forget(e);
            assert!(false, "unwrap fails instead of reporting no match");
        }
    }
    core::mem::forget(persist);
}

pub(crate) fn empty_persistent() -> MultiRecipientPersistent {
    MultiRecipientPersistent { public: [0u8; 32], encrypted_keys: Vec::new() }
}
pub(crate) fn persist_public(p: &MultiRecipientPersistent) -> [u8; 32] {
    p.public
}
pub(crate) fn persist_count(p: &MultiRecipientPersistent) -> usize {
    p.encrypted_keys.len()
}
