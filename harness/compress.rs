// Harness module appended to the real mla/src/layers/compress.rs (child module `verif_compress`).
// Code under test: the unmodified real source above. brotli is the data-free contract model crate
// (/verif/models/brotli): block *positions and sizes* are decided here, compressed bytes are not.
#![allow(dead_code, unused_imports, clippy::all)]
use super::*;
extern crate alloc;
use crate::verif_common::*;
use crate::{exclude_known, is_known, replay_cap};

// ------------------------------------------------------------------------------------------
// Specification (FORMAT.md): independent brotli streams of 4 MiB of uncompressed data each
// (the last one shorter or equal), followed by the SizesInfo footer.
// ------------------------------------------------------------------------------------------
const SPEC_BLOCK: u64 = if cfg!(feature = "mla_verif") { 8 } else { 4 * 1024 * 1024 };
const SPEC_FS_CACHE: usize = if cfg!(feature = "mla_verif") { 8 } else { 4096 };

fn ok<T>(r: io::Result<T>) -> T {
    match r {
        Ok(v) => v,
        Err(e) => {
            core::mem::forget(e);
            kani::assume(false);
            unreachable!()
        }
    }
}

/// size table with 1..=3 symbolic entries (len symbolic) without a symbolic-size allocation
fn any_sizes(max_entries: usize) -> (Vec<u32>, usize) {
    let k: usize = kani::any();
    kani::assume(k >= 1 && k <= max_entries);
    let mut v: Vec<u32> = Vec::with_capacity(3);
    let a: u32 = kani::any();
    let b: u32 = kani::any();
    let c: u32 = kani::any();
    v.push(a);
    if k >= 2 {
        v.push(b);
    }
    if k >= 3 {
        v.push(c);
    }
    (v, k)
}
fn sum_first(v: &[u32], b: usize) -> u64 {
    let mut s = 0u64;
    if b >= 1 {
        s += u64::from(v[0]);
    }
    if b >= 2 {
        s += u64::from(v[1]);
    }
    if b >= 3 {
        s += u64::from(v[2]);
    }
    s
}
/// uncompressed length described by a well-formed table
fn spec_len(k: usize, last: u32) -> u64 {
    (k as u64 - 1) * SPEC_BLOCK + u64::from(last)
}

type DynR = Box<dyn LayerReader<'static, Abs>>;

fn mk_reader_ready(inner: Abs, sizes: Vec<u32>, last: u32, upos: u64) -> CompressionLayerReader<'static, Abs> {
    let b: DynR = Box::new(inner);
    CompressionLayerReader {
        state: CompressionLayerReaderState::Ready(b),
        sizes_info: Some(SizesInfo { compressed_sizes: sizes, last_block_size: last }),
        underlayer_pos: upos,
    }
}
fn mk_reader_indata(inner: Abs, sizes: Vec<u32>, last: u32, upos: u64, read: u32, usize_: u32, take: u64) -> CompressionLayerReader<'static, Abs> {
    let b: DynR = Box::new(inner);
    CompressionLayerReader {
        state: CompressionLayerReaderState::InData {
            read,
            uncompressed_size: usize_,
            decompressor: Box::new(brotli::Decompressor::new(b.take(take), 0)),
        },
        sizes_info: Some(SizesInfo { compressed_sizes: sizes, last_block_size: last }),
        underlayer_pos: upos,
    }
}

/// stand-in for `std::io::copy` in `seek` (skip inside a block): ONE maximal read; valid because the
/// model decompressor hands out everything asked for when DEC_FULL is set (it is data-free)
static mut BIG: [u8; SPEC_BLOCK as usize] = [0u8; SPEC_BLOCK as usize];
fn copy_one_read<R: Read + ?Sized, W: Write + ?Sized>(r: &mut R, _w: &mut W) -> io::Result<u64> {
    // a block-sized destination (the skip inside a block is < one block); the model reader never
    // writes into it
    let dst = unsafe { core::slice::from_raw_parts_mut((&raw mut BIG) as *mut u8, SPEC_BLOCK as usize) };
    let n = r.read(dst)?;
    Ok(n as u64)
}

// ------------------------------------------------------------------------------------------
// H-CMP-SIZES: SizesInfo arithmetic vs the layout (C01) — well-formed tables
// ------------------------------------------------------------------------------------------
//@ props: C01 C11
//@ functions: layers::compress::SizesInfo::uncompressed_block_size_at; SizesInfo::compressed_block_size_at; SizesInfo::max_uncompressed_pos; SizesInfo::get_compressed_size
//@ bounds: production constants; size tables of 1..=3 entries, every u32 entry value; last block size 1..=4 MiB; every position inside the stream
//@ outside: tables with more than {BLOCKS} blocks (the functions index by block number only)
//@ replay: verif_replay_compress::cmp_sizes k:usize a:u32 b:u32 c:u32 last:u32 pos:u64
#[kani::proof]
#[kani::unwind(5)]
#[kani::stub(alloc::fmt::format, nofmt)]
#[kani::stub(<std::io::Error as std::convert::From<crate::errors::Error>>::from, cheap_from)]
fn h_cmp_sizes() {
    let (v, k) = any_sizes(3);
    let last: u32 = kani::any();
    kani::assume(last >= 1 && u64::from(last) <= SPEC_BLOCK);
    let si = SizesInfo { compressed_sizes: v, last_block_size: last };
    let total = spec_len(k, last);
    let pos: u64 = kani::any();
    kani::assume(pos < total);
    let b = (pos / SPEC_BLOCK) as usize;
    kani::cover!(k == 3 && b == 2, "third block");
    kani::cover!(u64::from(last) == SPEC_BLOCK, "last block exactly full");
    assert!(si.max_uncompressed_pos() == total, "stream length = (blocks-1)*4MiB + last block size");
    assert!(u64::from(si.uncompressed_block_size_at(b)) == if b + 1 < k { SPEC_BLOCK } else { u64::from(last) }, "every block but the last holds 4 MiB");
    match si.compressed_block_size_at(pos) {
        Ok(c) => assert!(c == si.compressed_sizes[b], "compressed size looked up by block index"),
        Err(e) => {
            core::mem::forget(e);
            assert!(false, "lookup inside the stream fails");
        }
    }
    assert!(si.get_compressed_size() == sum_first(&si.compressed_sizes, k), "compressed stream length is the sum of the table");
    assert!(u64::from(UNCOMPRESSED_DATA_SIZE) == SPEC_BLOCK, "format constant: 4 MiB blocks");
    core::mem::forget(si);
}

// ------------------------------------------------------------------------------------------
// H-CMP-SEEK: the real Seek::seek of the compression reader (C11, C10)
// ------------------------------------------------------------------------------------------
/// blocks in the symbolic size tables of the functional harnesses: VERIF_BLOCKS (quick 2, thorough 3)
const MAX_BLOCKS: usize = env_u32(option_env!("VERIF_BLOCKS"), 2) as usize;
fn any_wf_table() -> (Vec<u32>, usize, u32) {
    let (v, k) = any_sizes(MAX_BLOCKS);
    let last: u32 = kani::any();
    kani::assume(last >= 1 && u64::from(last) <= SPEC_BLOCK);
    (v, k, last)
}
/// arbitrary reader pre-state (history abstraction)
fn any_reader(v: Vec<u32>, last: u32, inner_len: u64) -> CompressionLayerReader<'static, Abs> {
    let ipos: u64 = kani::any();
    kani::assume(ipos <= inner_len);
    let upos: u64 = kani::any();
    let in_data: bool = kani::any();
    if in_data {
        let read: u32 = kani::any();
        let us: u32 = kani::any();
        let take: u64 = kani::any();
        mk_reader_indata(Abs::new(inner_len, ipos), v, last, upos, read, us, take)
    } else {
        mk_reader_ready(Abs::new(inner_len, ipos), v, last, upos)
    }
}
fn assert_cmp_positioned(r: &CompressionLayerReader<'static, Abs>, sizes: &[u32; 3], k: usize, last: u32, p: u64) {
    let total = spec_len(k, last);
    assert!(r.underlayer_pos == p, "position after seek is the target");
    if p == total {
        // at the very end nothing more is readable
        return;
    }
    let b = (p / SPEC_BLOCK) as usize;
    match &r.state {
        CompressionLayerReaderState::InData { read, uncompressed_size, decompressor } => {
            assert!(u64::from(*read) == p % SPEC_BLOCK, "offset inside the block is a function of the target only");
            assert!(u64::from(*uncompressed_size) == if b + 1 < k { SPEC_BLOCK } else { u64::from(last) }, "block size taken from the table");
            assert!(decompressor.produced == p % SPEC_BLOCK, "decompressor skipped exactly the bytes before the target");
            let take = decompressor.get_ref();
            assert!(take.limit() <= u64::from(sizes[b]), "decompressor confined to the compressed bytes of its block");
        }
        _ => assert!(false, "reader left without an open block after a seek inside the stream"),
    }
}

//@ props: C11 C10 C01
//@ functions: <layers::compress::CompressionLayerReader<R> as std::io::Seek>::seek (Start arm); CompressionLayerReader::sync_inner_with_uncompressed_pos; new_decompressor_at; uncompressed_block_size_at
//@ bounds: production constants; tables of 1..={BLOCKS} blocks, every u32 compressed size, last block 1..=4 MiB; every target 0 <= p <= len; arbitrary pre-state (Ready or inside any block, any counters)
//@ stubs: brotli -> position-only model (Decompressor returns everything asked); std::io::copy -> single maximal read; alloc::fmt::format; From<mla::Error> for io::Error
//@ outside: more than {BLOCKS} blocks; decompressed byte values
//@ replay: verif_replay_compress::cmp_seek op=start k:usize a:u32 b:u32 c:u32 last:u32 ipos:u64 upos:u64 in_data:bool p:u64
#[kani::proof]
#[kani::unwind(5)]
#[kani::stub(alloc::fmt::format, nofmt)]
#[kani::stub(<std::io::Error as std::convert::From<crate::errors::Error>>::from, cheap_from)]
#[kani::stub(std::io::copy, copy_one_read)]
fn h_cmp_seek_start() {
    let (v, k, last) = any_wf_table();
    let sizes = [v[0], if k >= 2 { v[1] } else { 0 }, if k >= 3 { v[2] } else { 0 }];
    let total = spec_len(k, last);
    let inner_len = sum_first(&sizes, k) + 64;
    let mut r = any_reader(v, last, inner_len);
    let p: u64 = kani::any();
    kani::assume(p <= total);
    kani::cover!(p == total && u64::from(last) == SPEC_BLOCK, "seek to the end, last block exactly full");
    kani::cover!(p == total && u64::from(last) < SPEC_BLOCK, "seek to the end, partial last block");
    kani::cover!(p / SPEC_BLOCK == (MAX_BLOCKS as u64 - 1), "last block of the largest table");
    kani::cover!(p % SPEC_BLOCK == 0 && p > 0 && p < total, "block-aligned target");
    unsafe { brotli::DEC_FULL = true };
    let res = r.seek(SeekFrom::Start(p));
    match res {
        Ok(got) => {
            assert!(got == p, "seek(Start(p)) returns p");
            assert_cmp_positioned(&r, &sizes, k, last, p);
            if p < total {
                let b = (p / SPEC_BLOCK) as usize;
                // the inner stream was moved to the first compressed byte of block b
                match &r.state {
                    CompressionLayerReaderState::InData { decompressor, .. } => {
                        let inner = decompressor.get_ref().get_ref();
                        let _ = inner;
                    }
                    _ => {}
                }
                assert!(unsafe { LAST_SEEK_TARGET } == sum_first(&sizes, b), "inner stream positioned at the sum of the preceding compressed sizes");
            }
        }
        Err(e) => {
            core::mem::forget(e);
            assert!(false, "seek(Start(p)) with p in [0, len] fails on a well-formed stream");
        }
    }
    core::mem::forget(r);
}

//@ props: C11 C10
//@ functions: <layers::compress::CompressionLayerReader<R> as std::io::Seek>::seek (End and Current arms, then Start arm)
//@ bounds: production constants; tables of 1..={BLOCKS} blocks; End(d) with -len <= d <= 0; Current(d) from any position c in [0,len] (reader Ready) with 0 <= c+d <= len
//@ stubs: brotli -> position-only model; std::io::copy -> single maximal read; alloc::fmt::format; From<mla::Error> for io::Error
//@ outside: more than {BLOCKS} blocks
//@ replay: verif_replay_compress::cmp_seek op=rel in_data=0 k:usize a:u32 b:u32 c:u32 last:u32 from_end:bool cur:u64 d:i64
#[kani::proof]
#[kani::unwind(5)]
#[kani::stub(alloc::fmt::format, nofmt)]
#[kani::stub(<std::io::Error as std::convert::From<crate::errors::Error>>::from, cheap_from)]
#[kani::stub(std::io::copy, copy_one_read)]
fn h_cmp_seek_rel() {
    let (v, k, last) = any_wf_table();
    let sizes = [v[0], if k >= 2 { v[1] } else { 0 }, if k >= 3 { v[2] } else { 0 }];
    let total = spec_len(k, last);
    let inner_len = sum_first(&sizes, k) + 64;
    let from_end: bool = kani::any();
    let cur: u64 = kani::any();
    kani::assume(cur <= total);
    let d: i64 = kani::any();
    let base = if from_end { total } else { cur };
    let want_i = base as i128 + d as i128;
    kani::assume(want_i >= 0 && want_i <= total as i128);
    let want = want_i as u64;
    // pre-state: Ready at `cur` (the InData representation is decided by h_cmp_seek_cur_indata)
    let mut r = mk_reader_ready(Abs::new(inner_len, 0), v, last, cur);
    kani::cover!(from_end && d == 0, "End(0)");
    kani::cover!(from_end && d == -4, "End(-4)");
    kani::cover!(!from_end && d == 0, "position query");
    kani::cover!(!from_end && d < 0, "backwards");
    unsafe { brotli::DEC_FULL = true };
    let res = r.seek(if from_end { SeekFrom::End(d) } else { SeekFrom::Current(d) });
    match res {
        Ok(got) => {
            assert!(got == want, "relative seek returns the cursor position");
            if from_end || d != 0 {
                assert_cmp_positioned(&r, &sizes, k, last, want);
            }
        }
        Err(e) => {
            core::mem::forget(e);
            assert!(false, "relative seek inside [0, len] fails on a well-formed stream");
        }
    }
    core::mem::forget(r);
}

//@ props: C11 C10
//@ functions: <layers::compress::CompressionLayerReader<R> as std::io::Seek>::seek (Current arm from inside a block, then Start arm)
//@ bounds: production constants; tables of 1..={BLOCKS} blocks; reader INSIDE the block holding its position c (in-block counter = c mod 4 MiB, decompressor having produced exactly that many bytes); Current(d) with 0 <= c+d <= len, d != 0
//@ stubs: brotli -> position-only model; std::io::copy -> single maximal read; alloc::fmt::format; From<mla::Error> for io::Error
//@ outside: more than {BLOCKS} blocks
//@ replay: verif_replay_compress::cmp_seek op=rel in_data=1 from_end=0 k:usize a:u32 b:u32 c:u32 last:u32 cur:u64 d:i64
#[kani::proof]
#[kani::unwind(5)]
#[kani::stub(alloc::fmt::format, nofmt)]
#[kani::stub(<std::io::Error as std::convert::From<crate::errors::Error>>::from, cheap_from)]
#[kani::stub(std::io::copy, copy_one_read)]
fn h_cmp_seek_cur_indata() {
    let (v, k, last) = any_wf_table();
    let sizes = [v[0], if k >= 2 { v[1] } else { 0 }, if k >= 3 { v[2] } else { 0 }];
    let total = spec_len(k, last);
    let inner_len = sum_first(&sizes, k) + 64;
    let cur: u64 = kani::any();
    kani::assume(cur < total);
    let d: i64 = kani::any();
    let want_i = cur as i128 + d as i128;
    kani::assume(d != 0 && want_i >= 0 && want_i <= total as i128);
    let want = want_i as u64;
    let b = (cur / SPEC_BLOCK) as usize;
    let us = if b + 1 < k { SPEC_BLOCK as u32 } else { last };
    let mut r = mk_reader_indata(Abs::new(inner_len, 0), v, last, cur, (cur % SPEC_BLOCK) as u32, us, u64::from(sizes[b]));
    if let CompressionLayerReaderState::InData { decompressor, .. } = &mut r.state {
        decompressor.produced = cur % SPEC_BLOCK;
    }
    kani::cover!(d > 0 && cur / SPEC_BLOCK == want / SPEC_BLOCK && (b + 1 < k), "forward inside the current, non-last block");
    kani::cover!(d < 0 && cur / SPEC_BLOCK == want / SPEC_BLOCK, "backward inside the current block");
    kani::cover!(cur / SPEC_BLOCK != want / SPEC_BLOCK, "into another block");
    unsafe { brotli::DEC_FULL = true };
    let res = r.seek(SeekFrom::Current(d));
    match res {
        Ok(got) => {
            assert!(got == want, "relative seek returns the cursor position");
            assert_cmp_positioned(&r, &sizes, k, last, want);
        }
        Err(e) => {
            core::mem::forget(e);
            assert!(false, "relative seek inside [0, len] fails on a well-formed stream");
        }
    }
    core::mem::forget(r);
}

// ------------------------------------------------------------------------------------------
// H-CMP-R-STEP: one real read() from any consistent state (C01 block bookkeeping, C10, C11)
// ------------------------------------------------------------------------------------------
//@ props: C01 C10 C11 C13
//@ functions: <layers::compress::CompressionLayerReader<R> as std::io::Read>::read (all arms incl. block change recursion); pos_in_stream; sync_inner_with_uncompressed_pos
//@ bounds: production constants; tables of 1..={BLOCKS} blocks; reader at any position c in [0,len] in state Ready or InData(read = c mod 4MiB or = block size at a block edge); caller buffer 0..=8 bytes; decompressor returns any count <= asked
//@ stubs: brotli::Decompressor -> nondeterministic count, no data; alloc::fmt::format; From<mla::Error> for io::Error
//@ outside: byte values; decompressor errors
//@ replay: verif_replay_compress::cmp_read k:usize a:u32 b:u32 c:u32 last:u32 c_pos:u64 ready:bool at_edge:bool blen:usize
#[kani::proof]
#[kani::unwind(4)]
#[kani::stub(alloc::fmt::format, nofmt)]
#[kani::stub(<std::io::Error as std::convert::From<crate::errors::Error>>::from, cheap_from)]
fn h_cmp_read_step() {
    let (v, k, last) = any_wf_table();
    let sizes = [v[0], if k >= 2 { v[1] } else { 0 }, if k >= 3 { v[2] } else { 0 }];
    let total = spec_len(k, last);
    let inner_len = sum_first(&sizes, k) + 64;
    let c: u64 = kani::any();
    kani::assume(c <= total);
    let ready: bool = kani::any();
    // at a block edge the reader may still hold the finished block (read == its size)
    let at_edge: bool = kani::any();
    kani::assume(!at_edge || (c % SPEC_BLOCK == 0 && c > 0));
    let blen: usize = kani::any();
    kani::assume(blen <= 8);
    let ipos: u64 = kani::any();
    kani::assume(ipos <= inner_len);
    // representation invariant: the reader is in `Ready` only at a block start (after `new` at 0,
    // or after finishing a block) — or at/after the end
    kani::assume(!ready || c % SPEC_BLOCK == 0 || c == total);
    let mut r = if ready {
        mk_reader_ready(Abs::new(inner_len, ipos), v, last, c)
    } else if at_edge {
        let b = (c / SPEC_BLOCK) as usize - 1;
        mk_reader_indata(Abs::new(inner_len, ipos), v, last, c, SPEC_BLOCK as u32, SPEC_BLOCK as u32, 0)
    } else {
        kani::assume(c < total);
        let b = (c / SPEC_BLOCK) as usize;
        let us = if b + 1 < k { SPEC_BLOCK as u32 } else { last };
        mk_reader_indata(Abs::new(inner_len, ipos), v, last, c, (c % SPEC_BLOCK) as u32, us, u64::from(sizes[b]))
    };
    kani::cover!(at_edge && !ready && c < total, "block change");
    kani::cover!(c == total, "at the end of the stream");
    kani::cover!(ready && c < total, "first read of a block");
    unsafe {
        brotli::DEC_FULL = false;
        ABS_POS = ipos;
    }
    let mut buf = [0u8; 8];
    let res = r.read(&mut buf[..blen]);
    match res {
        Ok(n) => {
            let left_in_block = if c == total { 0 } else { core::cmp::min(SPEC_BLOCK - c % SPEC_BLOCK, total - c) };
            assert!(n as u64 <= core::cmp::min(blen as u64, left_in_block), "a read never crosses a block edge nor the end of the stream");
            assert!(r.underlayer_pos == c + n as u64, "position advances by the count returned");
            if c < total {
                let b = (c / SPEC_BLOCK) as usize;
                match &r.state {
                    CompressionLayerReaderState::InData { read, uncompressed_size, decompressor } => {
                        assert!(u64::from(*read) == c % SPEC_BLOCK + n as u64, "in-block counter follows the position");
                        assert!(u64::from(*uncompressed_size) == if b + 1 < k { SPEC_BLOCK } else { u64::from(last) });
                        if ready || at_edge {
                            assert!(unsafe { LAST_SEEK_TARGET } == sum_first(&sizes, b), "a new block is opened at the sum of the preceding compressed sizes");
                            assert!(decompressor.get_ref().limit() <= u64::from(sizes[b]));
                            // wherever the previous decompressor stopped fetching (a short-reading
                            // source leaves the last bytes of a block unread), the new block's
                            // bytes are taken from its recorded start
                            let consumed = u64::from(sizes[b]) - decompressor.get_ref().limit();
                            assert!(unsafe { ABS_POS } == sum_first(&sizes, b) + consumed, "the bytes fed to a new block's decompressor start at the block's recorded offset, wherever the previous one stopped reading");
                        }
                    }
                    _ => assert!(false, "reader not inside a block after reading inside the stream"),
                }
            } else {
                assert!(n == 0, "read at the end returns 0");
            }
        }
        Err(e) => {
            core::mem::forget(e);
            assert!(false, "read inside a well-formed stream fails without a decompressor error");
        }
    }
    core::mem::forget(r);
}

// ------------------------------------------------------------------------------------------
// H-CMP-FS-STEP: one real CompressionLayerFailSafeReader::read from any consistent InData state
// (C05 no premature end, C13 short reads of the source, C14 pending output at end of input)
// ------------------------------------------------------------------------------------------
type DynFs = Box<dyn LayerFailSafeReader<'static, AbsSrc>>;
type BState = BrotliState<StandardAlloc, StandardAlloc, StandardAlloc>;

fn mk_fs(
    src: AbsSrc,
    filled: usize,
    roff: usize,
    st: BState,
    uread: u32,
) -> CompressionLayerFailSafeReader<'static, AbsSrc> {
    let inner: DynFs = Box::new(src);
    CompressionLayerFailSafeReader {
        state: CompressionLayerFailSafeReaderState::InData {
            cache: vec![0u8; SPEC_FS_CACHE],
            cache_filled_offset: filled,
            read_offset: roff,
            state: Box::new(st),
            uncompressed_read: uread,
            inner,
        },
    }
}

struct FsView {
    filled: usize,
    roff: usize,
    pending: usize,
    saw_end: bool,
    failed: bool,
    uread: u32,
    left: u64,
    total_in: usize,
}
fn view(r: &CompressionLayerFailSafeReader<'static, AbsSrc>) -> Option<FsView> {
    match &r.state {
        CompressionLayerFailSafeReaderState::InData { cache_filled_offset, read_offset, state, uncompressed_read, inner, cache } => {
            assert!(cache.len() == SPEC_FS_CACHE, "cache stays allocated at its fixed size");
            // the abstract source is behind a trait object: its counters are mirrored in ghost statics
            Some(FsView {
                filled: *cache_filled_offset,
                roff: *read_offset,
                pending: state.pending_out,
                saw_end: state.saw_end,
                failed: state.failed,
                uread: *uncompressed_read,
                left: unsafe { ABSSRC_LEFT },
                total_in: state.total_in,
            })
        }
        _ => None,
    }
}

/// arbitrary consistent InData state; returns (reader, roff, filled, left, pending, uread)
fn any_fs_state(max_input: Option<u64>) -> (CompressionLayerFailSafeReader<'static, AbsSrc>, usize, usize, u64, usize, u32) {
    let filled: usize = kani::any();
    let roff: usize = kani::any();
    kani::assume(roff <= filled && filled <= SPEC_FS_CACHE);
    let uread: u32 = kani::any();
    kani::assume(u64::from(uread) <= SPEC_BLOCK);
    let pending: usize = kani::any();
    kani::assume(pending <= brotli::MODEL_MAX_PENDING);
    let left: u64 = kani::any();
    kani::assume(left < (1u64 << 40));
    let short: bool = kani::any();
    let saw_end: bool = kani::any();
    // a decoder that met the end marker and has nothing pending has already reported success
    // (the reader then replaced it by a fresh one): not a state a pass can start from
    kani::assume(!saw_end || pending > 0);
    if let Some(m) = max_input {
        kani::assume((filled - roff) as u64 + left <= m);
    }
    let mut st: BState = BrotliState::new(StandardAlloc::default(), StandardAlloc::default(), StandardAlloc::default());
    st.pending_out = pending;
    st.saw_end = saw_end;
    unsafe {
        ABSSRC_LEFT = left;
        brotli::GHOST_CONSUMED = 0;
        brotli::GHOST_SUCCESSES = 0;
    }
    (mk_fs(AbsSrc::new(left, short), filled, roff, st, uread), roff, filled, left, pending, uread)
}

//@ props: C05 C13 C14 C02
//@ functions: layers::compress::CompressionLayerFailSafeReader::read_pass (one decompression pass: cache refill, decoder call, all four decoder results)
//@ bounds: production constants (4096-byte cache, 4 MiB blocks); ANY cache state read_offset <= filled <= 4096; any uncompressed_read <= 4 MiB; decoder holding 0..=64 pending output bytes, end marker met or not; source with any remaining length < 2^40 delivering any count 1..=asked per read (short reads) or everything; caller buffer 1..=8 bytes. Induction: read() is `loop { read_pass }`; a pass without result strictly decreases the unconsumed input, so any number of passes is covered.
//@ stubs: brotli::BrotliDecompressStream -> data-free CONTRACT model (over-approximates the real decoder); alloc::fmt::format; From<mla::Error> for io::Error
//@ outside: real brotli bit streams (counterexamples are confirmed natively with the real crate); buffers > 8 bytes (only min(buffer, block remainder) is used)
//@ replay: verif_replay_compress::cmp_fs filled:usize roff:usize uread:u32 pending:usize left:u64 short:bool saw_end:bool blen:usize
#[kani::proof]
#[kani::unwind(4)]
#[kani::stub(alloc::fmt::format, nofmt)]
#[kani::stub(<std::io::Error as std::convert::From<crate::errors::Error>>::from, cheap_from)]
fn h_cmp_fs_pass() {
    let (mut r, roff, filled, left, pending, uread) = any_fs_state(None);
    let blen: usize = kani::any();
    kani::assume(blen >= 1 && blen <= 8);
    let input_before = (filled - roff) as u64 + left;
    let reset = filled == SPEC_FS_CACHE && roff == filled;
    kani::cover!(left == 0 && roff == filled && pending > 0, "input exhausted while the decoder still holds output");
    kani::cover!(u64::from(uread) == SPEC_BLOCK, "block output limit reached");
    kani::cover!(left > 1, "source may deliver fewer bytes than asked");
    kani::cover!(reset, "cache full and consumed: reset");
    let mut buf = [0u8; 8];
    let res = r.read_pass(&mut buf[..blen]);
    let v = match view(&r) {
        Some(v) => v,
        None => {
            assert!(false, "reader left in the placeholder (Empty) state: later use or into_inner() fails");
            return;
        }
    };
    let consumed = unsafe { brotli::GHOST_CONSUMED };
    let successes = unsafe { brotli::GHOST_SUCCESSES };
    assert!(v.roff <= v.filled && v.filled <= SPEC_FS_CACHE, "cache invariant read_offset <= filled <= 4096 preserved");
    assert!(u64::from(v.uread) <= SPEC_BLOCK, "output limited to the remainder of the 4 MiB block");
    let input_after = (v.filled - v.roff) as u64 + v.left;
    assert!(input_after + consumed as u64 == input_before, "every input byte is either still waiting or was consumed by the decoder: none skipped, none replayed");
    assert!(v.roff == (if reset { 0 } else { roff }) + consumed, "the next pass (or the next stream) starts right after the consumed bytes");
    match res {
        None => {
            assert!(input_after < input_before, "a pass without result consumes input (termination measure)");
            if successes > 0 {
                assert!(v.uread == 0 && v.pending == 0 && !v.saw_end, "after the end of a block (even one that ends without output) the next one starts with a fresh decoder and a zero counter");
            } else {
                assert!(v.uread == uread, "a pass that returned nothing did not change the per-block output counter");
            }
        }
        Some(Ok(n)) => {
            assert!(n <= blen, "never more than the buffer");
            if n == 0 {
                // a zero-length read is how callers detect the end of the data
                assert!(input_after == 0, "Ok(0) although compressed input remains (premature end of stream)");
                assert!(v.pending == 0, "Ok(0) although the decoder still holds decoded output (output dropped)");
                assert!(v.uread == 0, "Ok(0) in the middle of a block");
            }
            if successes > 0 {
                assert!(v.uread == 0 && v.pending == 0 && !v.saw_end, "after the end of a block the next one starts with a fresh decoder and a zero counter");
            } else {
                assert!(u64::from(v.uread) == u64::from(uread) + n as u64, "per-block output counter follows the bytes returned");
            }
        }
        Some(Err(e)) => {
            core::mem::forget(e);
            // an error ends the recovery: allowed when the decoder rejected the data, when the
            // stream is cut inside a block (and nothing decoded is left behind), or when a block
            // wants to produce more than 4 MiB
            let cut_inside_block = input_after == 0 && v.pending == 0 && v.uread > 0;
            let block_too_big = u64::from(v.uread) == SPEC_BLOCK && v.pending > 0;
            assert!(v.failed || cut_inside_block || block_too_big, "Err although the data is neither rejected by the decoder nor cut, or decoded output is still pending (output dropped)");
        }
    }
    core::mem::forget(r);
}

//@ props: C05 C13 C14
//@ scaled: yes
//@ tier: thorough
//@ timeout: 1500
//@ functions: <layers::compress::CompressionLayerFailSafeReader<R> as std::io::Read>::read (the pass loop) ; read_pass
//@ bounds: SCALED build (8-byte cache, 8-byte blocks); as h_cmp_fs_pass but at most 3 unconsumed input bytes in cache+source (so at most 4 passes, unwinding 6 with unwinding assertion); buffer 0..=8 bytes
//@ stubs: brotli::BrotliDecompressStream -> data-free contract model; alloc::fmt::format; From<mla::Error> for io::Error
//@ outside: more pending input per call (covered by the one-pass induction of h_cmp_fs_pass)
//@ replay: verif_replay_compress::cmp_fs filled:usize roff:usize uread:u32 pending:usize left:u64 short:bool saw_end:bool blen:usize
#[kani::proof]
#[kani::unwind(6)]
#[kani::stub(alloc::fmt::format, nofmt)]
#[kani::stub(<std::io::Error as std::convert::From<crate::errors::Error>>::from, cheap_from)]
fn h_cmp_fs_read_small() {
    let (mut r, roff, filled, left, pending, uread) = any_fs_state(Some(3));
    let blen: usize = kani::any();
    kani::assume(blen <= 8);
    let input_before = (filled - roff) as u64 + left;
    kani::cover!(blen == 0, "empty buffer");
    kani::cover!(input_before == 3 && left == 3, "three passes of one byte each possible");
    let mut buf = [0u8; 8];
    let res = r.read(&mut buf[..blen]);
    let v = match view(&r) {
        Some(v) => v,
        None => {
            assert!(false, "reader left in the placeholder (Empty) state");
            return;
        }
    };
    let input_after = (v.filled - v.roff) as u64 + v.left;
    match res {
        Ok(n) => {
            assert!(n <= blen);
            if blen == 0 {
                assert!(n == 0 && input_after == input_before && v.pending == pending, "an empty buffer reads nothing and changes nothing");
            } else if n == 0 {
                assert!(input_after == 0 && v.pending == 0, "read() returns 0 only when neither input nor decoded output is left");
            }
        }
        Err(e) => {
            core::mem::forget(e);
            let cut_inside_block = input_after == 0 && v.pending == 0 && v.uread > 0;
            let block_too_big = u64::from(v.uread) == SPEC_BLOCK && v.pending > 0;
            assert!(v.failed || cut_inside_block || block_too_big, "read() fails although data is neither rejected nor cut, or drops decoded output");
        }
    }
    core::mem::forget(r);
}

// ------------------------------------------------------------------------------------------
// C08: totality on arbitrary (attacker-chosen) size tables, positions and offsets
// ------------------------------------------------------------------------------------------
/// table with 0..=3 entries, every field arbitrary
fn any_table_untrusted() -> (Vec<u32>, usize, u32) {
    let k: usize = kani::any();
    kani::assume(k <= 3);
    let mut v: Vec<u32> = Vec::with_capacity(3);
    let a: u32 = kani::any();
    let b: u32 = kani::any();
    let c: u32 = kani::any();
    if k >= 1 {
        v.push(a);
    }
    if k >= 2 {
        v.push(b);
    }
    if k >= 3 {
        v.push(c);
    }
    let last: u32 = kani::any();
    (v, k, last)
}

//@ props: C08
//@ functions: <layers::compress::CompressionLayerReader<R> as std::io::Seek>::seek (all arms); SizesInfo::{max_uncompressed_pos, uncompressed_block_size_at, compressed_block_size_at}; sync_inner_with_uncompressed_pos; new_decompressor_at
//@ bounds: production constants; size table of 0..=3 entries with ANY u32 values and ANY last_block_size (as parsed from an untrusted footer); reader Ready at ANY position; ANY SeekFrom with ANY offset; inner stream rejects invalid targets with an error
//@ stubs: brotli -> position-only model; std::io::copy -> single maximal read; alloc::fmt::format; From<mla::Error> for io::Error
//@ outside: results (only panic-freedom is claimed); tables with more than 3 entries
//@ replay: verif_replay_compress::cmp_total op=seek k:usize a:u32 b:u32 c:u32 last:u32 upos:u64 which:u8 off:u64
#[kani::proof]
#[kani::unwind(5)]
#[kani::stub(alloc::fmt::format, nofmt)]
#[kani::stub(<std::io::Error as std::convert::From<crate::errors::Error>>::from, cheap_from)]
#[kani::stub(std::io::copy, copy_one_read)]
fn h_cmp_total_seek() {
    let (v, k, last) = any_table_untrusted();
    let upos: u64 = kani::any();
    let mut r = mk_reader_ready(Abs::strict(1u64 << 40, 0), v, last, upos);
    let which: u8 = kani::any();
    let off: u64 = kani::any();
    kani::cover!(k == 0, "empty size table");
    kani::cover!(u64::from(last) > SPEC_BLOCK, "last block size larger than a block");
    kani::cover!(which % 3 == 2 && (off as i64) < 0, "End with a negative offset");
    unsafe { brotli::DEC_FULL = true };
    let sf = match which % 3 {
        0 => SeekFrom::Start(off),
        1 => SeekFrom::Current(off as i64),
        _ => SeekFrom::End(off as i64),
    };
    let s = r.seek(sf);
    core::mem::forget(s);
    core::mem::forget(r);
}

//@ props: C08
//@ functions: <layers::compress::CompressionLayerReader<R> as std::io::Read>::read; pos_in_stream; SizesInfo lookups; then Seek::seek on the state an error leaves behind
//@ bounds: production constants; size table of 0..=3 entries with ANY values; reader Ready at ANY position; one read of 0..=4 bytes, then seek(Start(0)) on whatever state is left (also after an error)
//@ stubs: brotli -> position-only model; std::io::copy -> single maximal read; alloc::fmt::format; From<mla::Error> for io::Error
//@ outside: results (only panic-freedom is claimed)
//@ replay: verif_replay_compress::cmp_total op=read k:usize a:u32 b:u32 c:u32 last:u32 upos:u64 blen:usize
#[kani::proof]
#[kani::unwind(5)]
#[kani::stub(alloc::fmt::format, nofmt)]
#[kani::stub(<std::io::Error as std::convert::From<crate::errors::Error>>::from, cheap_from)]
#[kani::stub(std::io::copy, copy_one_read)]
fn h_cmp_total_read() {
    let (v, k, last) = any_table_untrusted();
    let upos: u64 = kani::any();
    let mut r = mk_reader_ready(Abs::strict(1u64 << 40, 0), v, last, upos);
    let blen: usize = kani::any();
    kani::assume(blen <= 4);
    kani::cover!(k == 0, "empty size table");
    kani::cover!(k == 1 && u64::from(last) > SPEC_BLOCK && upos >= SPEC_BLOCK, "position inside a declared-too-large last block");
    unsafe { brotli::DEC_FULL = true };
    let mut buf = [0u8; 4];
    let rr = r.read(&mut buf[..blen]);
    core::mem::forget(rr);
    // the reader must remain usable (or refuse) after an error: no crash
    let s2 = r.seek(SeekFrom::Start(0));
    core::mem::forget(s2);
    core::mem::forget(r);
}

//@ props: C08
//@ functions: <layers::compress::CompressionLayerReader<R> as layers::traits::LayerReader>::initialize (footer location arithmetic up to the deserialisation call)
//@ bounds: production constants; inner stream of ANY length 0..2^40 whose last four bytes (footer length field) are ARBITRARY; the stream reports end of data right after that field so that bincode fails fast
//@ stubs: alloc::fmt::format; From<mla::Error> for io::Error
//@ outside: bincode/serde internals on the table bytes themselves
//@ replay: verif_replay_compress::cmp_init n:u64 lenfield:u32
#[kani::proof]
#[kani::unwind(6)]
#[kani::stub(alloc::fmt::format, nofmt)]
#[kani::stub(<std::io::Error as std::convert::From<crate::errors::Error>>::from, cheap_from)]
fn h_cmp_init_total() {
    let n: u64 = kani::any();
    kani::assume(n < (1u64 << 40));
    let mut a = Abs::strict(n, 0);
    a.nondet_data = true;
    a.max_calls = 1;
    a.all_or_nothing = true;
    a.max_seeks = 1;
    let b: DynR = Box::new(a);
    let mut r = CompressionLayerReader { state: CompressionLayerReaderState::Ready(b), sizes_info: None, underlayer_pos: 0 };
    kani::cover!(n < 4, "stream shorter than the length field");
    kani::cover!(n >= 4, "length field readable");
    let res = r.initialize();
    if let Ok(()) = &res {
        assert!(false, "initialize succeeded although the table could not be read");
    }
    core::mem::forget(res);
    core::mem::forget(r);
}

// ------------------------------------------------------------------------------------------
// H-CMP-W-*: the real CompressionLayerWriter over the position-only compressor model, which here
// forwards NO compressed bytes (so WriterWithCount::write — whose u32-conversion arm creates and
// drops a boxed `dyn Error` the model checker cannot resolve — is never entered)
// (C01 block roll-over at exactly 4 MiB and size table; C14 flush reaches compressor and sink)
// ------------------------------------------------------------------------------------------
type DynW = InnerWriterType<'static, Rec>;
fn sink_of_state(st: &CompressionLayerWriterState<DynW>) -> Option<&Rec> {
    match st {
        CompressionLayerWriterState::Ready(inner) => Some(unsafe { &*(&**inner as *const dyn LayerWriter<'static, Rec> as *const Rec) }),
        CompressionLayerWriterState::InData(_, c) => {
            let wc: &WriterWithCount<DynW> = c.get_ref();
            Some(unsafe { &*(&*wc.inner as *const dyn LayerWriter<'static, Rec> as *const Rec) })
        }
        CompressionLayerWriterState::Empty => None,
    }
}
fn mk_cwriter(in_data: bool, written: u32, table_len: usize, pos_in_block: u32) -> CompressionLayerWriter<'static, Rec> {
    let inner: DynW = Box::new(Rec::new());
    let mut w = CompressionLayerWriter::new(inner, &CompressionConfig::default());
    if table_len >= 1 {
        w.compressed_sizes.push(kani::any());
    }
    if table_len >= 2 {
        w.compressed_sizes.push(kani::any());
    }
    if in_data {
        let old = std::mem::replace(&mut w.state, CompressionLayerWriterState::Empty);
        if let CompressionLayerWriterState::Ready(inner) = old {
            let mut wc = WriterWithCount::new(inner);
            wc.pos = pos_in_block;
            w.state = CompressionLayerWriterState::InData(written, Box::new(brotli::CompressorWriter::new(wc, 0, 5, 22)));
        }
    }
    w
}

// (the write() step itself is not decided: its `u32::try_from(count).map_err(|_| io::Error::new(..))`
//  arms are reachable for the symbolic executor and box a `dyn Error`, whose drop glue cannot be
//  resolved; `<Box<dyn Error> as From<&str>>::from` cannot be named in a kani::stub either)

// (finalize() is not decided either: the bincode serialisation of the size table did not finish in
//  10 min. Of the compression WRITER only flush() is within reach.)

//@ props: C14
//@ functions: <layers::compress::CompressionLayerWriter<W> as std::io::Write>::flush
//@ bounds: writer Ready or inside a block with ANY fill 0..=4 MiB (also exactly full); any table
//@ stubs: brotli::CompressorWriter -> position-only model whose flush records itself and flushes the inner writer (brotli contract); alloc::fmt::format; From<mla::Error> for io::Error
//@ outside: that real brotli's flush makes all accepted input decodable (brotli contract, assumed)
//@ replay: verif_replay_compress::cmp_flush in_data:bool written:u32
#[kani::proof]
#[kani::unwind(5)]
#[kani::stub(alloc::fmt::format, nofmt)]
#[kani::stub(<std::io::Error as std::convert::From<crate::errors::Error>>::from, cheap_from)]
fn h_cmp_writer_flush() {
    let in_data: bool = kani::any();
    let written: u32 = kani::any();
    kani::assume(u64::from(written) <= SPEC_BLOCK);
    let mut w = mk_cwriter(in_data, written, 1, 5);
    if let CompressionLayerWriterState::InData(_, c) = &mut w.state {
        c.held = u64::from(written);
    }
    kani::cover!(in_data && u64::from(written) == SPEC_BLOCK, "flush with the block exactly full");
    kani::cover!(!in_data, "flush between blocks");
    let r = w.flush();
    let okk = r.is_ok();
    core::mem::forget(r);
    assert!(okk, "flush on a healthy sink fails");
    match sink_of_state(&w.state) {
        Some(s) => assert!(s.flushes == 1, "flush reaches the inner writer"),
        None => assert!(false, "writer left in the placeholder state by flush"),
    }
    if let CompressionLayerWriterState::InData(_, c) = &w.state {
        assert!(c.flushes == 1 && c.held == 0, "the compressor is flushed first: nothing accepted stays unforwarded, whatever the fill of the block");
    }
    core::mem::forget(w);
}
