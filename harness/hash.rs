// Harness module appended to the real mla/src/crypto/hash.rs
#![allow(dead_code, unused_imports, clippy::all)]
use super::*;
extern crate alloc;
use crate::verif_common::*;

struct Src {
    d: [u8; 8],
    pos: usize,
    len: usize,
}
impl Read for Src {
    fn read(&mut self, buf: &mut [u8]) -> io::Result<usize> {
        let lim = core::cmp::min(self.len - self.pos, buf.len());
        let n: usize = kani::any();
        kani::assume(n <= lim && (n > 0 || lim == 0));
        buf[..n].copy_from_slice(&self.d[self.pos..self.pos + n]);
        self.pos += n;
        Ok(n)
    }
}

//@ props: C01 C13
//@ functions: <crypto::hash::HashWrapperReader<R> as std::io::Read>::read
//@ bounds: source of 0..=8 arbitrary bytes returning any count 1..=available per read; caller buffer 0..=8; hash state arbitrary
//@ stubs: model sha2 (order- and content-sensitive fold); alloc::fmt::format
//@ outside: SHA-256 values
//@ replay: verif_replay_lib::lib_hash
#[kani::proof]
#[kani::unwind(10)]
#[kani::stub(alloc::fmt::format, nofmt)]
fn h_hash_wrapper() {
    let d: [u8; 8] = kani::any();
    let len: usize = kani::any();
    let blen: usize = kani::any();
    kani::assume(len <= 8 && blen <= 8);
    let mut h = Sha256::default();
    h.acc = kani::any();
    h.fed = kani::any();
    kani::assume(h.fed < (1u64 << 40));
    let mut reference = h.clone();
    let mut buf = [0u8; 8];
    let n = {
        let mut w = HashWrapperReader::new(Src { d, pos: 0, len }, &mut h);
        match w.read(&mut buf[..blen]) {
            Ok(n) => n,
            Err(e) => {
                core::mem::forget(e);
                assert!(false);
                return;
            }
        }
    };
    kani::cover!(n > 0 && n < blen, "short read");
    let mut i = 0;
    while i < 8 {
        if i < n {
            assert!(buf[i] == d[i], "bytes pass through unchanged");
            reference.absorb(d[i]);
        }
        i += 1;
    }
    assert!(h.acc == reference.acc && h.fed == reference.fed, "the hash is fed exactly the bytes returned, in order, nothing more");
}
