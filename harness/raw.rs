// Harness module appended to the real mla/src/layers/raw.rs
#![allow(dead_code, unused_imports, clippy::all)]
use super::*;
extern crate alloc;
use crate::verif_common::*;

//@ props: C11 C08
//@ functions: <layers::raw::RawLayerReader<R> as std::io::Seek>::seek (all arms); RawLayerReader::reset_position
//@ bounds: inner stream of any length < 2^62 with the header ending at any offset <= length; any target inside [0, len - offset] from Start / Current / End
//@ stubs: alloc::fmt::format
//@ outside: targets outside the layer
//@ replay: verif_replay_raw::raw_seek n:u64 off:u64 cur:u64 which:u8 d:i64
#[kani::proof]
#[kani::unwind(3)]
#[kani::stub(alloc::fmt::format, nofmt)]
fn h_raw_seek() {
    let n: u64 = kani::any();
    let off: u64 = kani::any();
    kani::assume(n < (1u64 << 62) && off <= n);
    let layer_len = n - off;
    let cur: u64 = kani::any();
    kani::assume(cur <= layer_len);
    let mut r = RawLayerReader::new(Abs::strict(n, off));
    match r.reset_position() {
        Ok(()) => {}
        Err(e) => {
            core::mem::forget(e);
            assert!(false);
        }
    }
    assert!(r.offset_pos == off, "position 0 of the layer is the end of the header");
    let which: u8 = kani::any();
    let d: i64 = kani::any();
    // reach `cur` first
    match r.seek(SeekFrom::Start(cur)) {
        Ok(p) => assert!(p == cur && r.inner.pos == off + cur, "Start(p) lands on header end + p"),
        Err(e) => {
            core::mem::forget(e);
            assert!(false, "seek inside the layer fails");
        }
    }
    let (sf, base) = match which % 3 {
        0 => (SeekFrom::Start(d as u64), 0i128),
        1 => (SeekFrom::Current(d), cur as i128),
        _ => (SeekFrom::End(d), layer_len as i128),
    };
    let want = if which % 3 == 0 { d as u64 as i128 } else { base + d as i128 };
    kani::assume(want >= 0 && want <= layer_len as i128);
    kani::cover!(which % 3 == 2 && d == 0, "End(0)");
    kani::cover!(which % 3 == 1 && d < 0, "backwards");
    kani::cover!(off > 0 && want == 0, "back to the first byte after the header");
    match r.seek(sf) {
        Ok(p) => {
            assert!(p as i128 == want, "raw layer seek equals a cursor over the bytes after the header");
            assert!(r.inner.pos == off + p, "inner position = header end + layer position");
        }
        Err(e) => {
            core::mem::forget(e);
            assert!(false, "seek inside the layer fails");
        }
    }
}

//@ props: C08
//@ functions: <layers::raw::RawLayerReader<R> as std::io::Seek>::seek
//@ bounds: ANY inner length, header offset, SeekFrom variant and offset (full u64/i64)
//@ stubs: alloc::fmt::format
//@ outside: results (panic-freedom only)
//@ replay: verif_replay_raw::raw_seek_total n:u64 off:u64 which:u8 d:u64
#[kani::proof]
#[kani::unwind(3)]
#[kani::stub(alloc::fmt::format, nofmt)]
fn h_raw_seek_total() {
    let n: u64 = kani::any();
    let off: u64 = kani::any();
    kani::assume(off <= n);
    let mut r = RawLayerReader::new(Abs::strict(n, off));
    let rp = r.reset_position();
    core::mem::forget(rp);
    let which: u8 = kani::any();
    let d: u64 = kani::any();
    let sf = match which % 3 {
        0 => SeekFrom::Start(d),
        1 => SeekFrom::Current(d as i64),
        _ => SeekFrom::End(d as i64),
    };
    kani::cover!(which % 3 == 0 && d > u64::MAX - 8, "absolute target near u64::MAX");
    kani::cover!(which % 3 == 2 && (d as i64) < 0, "before the end");
    let s = r.seek(sf);
    core::mem::forget(s);
}
