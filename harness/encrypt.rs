// Harness module appended to the real mla/src/layers/encrypt.rs (child module `verif_encrypt`:
// sees every private item of the encryption layer). The code under test is the unmodified real
// source above this module; nothing of it is re-implemented here. What *is* written here:
//   * the layout specification from FORMAT.md, with literal numbers (SPEC_*),
//   * the load contract (`load_spec`) used as a stub in position harnesses and checked against the
//     real `load_in_cache*` bodies by the refinement harnesses,
//   * one `#[kani::proof]` per decided kernel.
#![allow(dead_code, unused_imports, clippy::all)]
use super::*;
extern crate alloc;
use crate::crypto::aesgcm::verif_aesgcm::{ghost_iv, ghost_key, ghost_pos, model_build};
use crate::verif_common::*;
use crate::{exclude_known, is_known, replay_cap};

// ------------------------------------------------------------------------------------------
// Specification (FORMAT.md): chunks of 128 KiB of plaintext, each followed by a 16-byte tag.
// ------------------------------------------------------------------------------------------
// (with the verification-only cargo feature `mla_verif` the chunk is 4 bytes long; harnesses marked
//  `scaled` run in that build, everything else at the production value)
const SPEC_CHUNK: u64 = if cfg!(feature = "mla_verif") { 4 } else { 131_072 };
const SPEC_TAG: u64 = 16;
const SPEC_CTS: u64 = SPEC_CHUNK + SPEC_TAG;

/// `n` is the length of a stream the encryption writer can produce
fn wf(n: u64) -> bool {
    let r = n % SPEC_CTS;
    n == SPEC_TAG || (r == 0 && n > 0) || r > SPEC_TAG
}
/// plaintext length of a well-formed tagged stream of `n` bytes
fn plain_len(n: u64) -> u64 {
    let r = n % SPEC_CTS;
    (n / SPEC_CTS) * SPEC_CHUNK + if r == 0 { 0 } else { r - SPEC_TAG }
}
/// tagged-stream offset of plaintext offset `p`
fn tagged(p: u64) -> u64 {
    p + SPEC_TAG * (p / SPEC_CHUNK)
}
/// number of plaintext bytes in chunk `c` of a well-formed stream of `n` bytes
fn chunk_plain_len(n: u64, c: u64) -> u64 {
    let start = c * SPEC_CTS;
    if start >= n {
        0
    } else {
        core::cmp::min(n - start, SPEC_CTS) - SPEC_TAG
    }
}

fn ok<T>(r: io::Result<T>) -> T {
    match r {
        Ok(v) => v,
        Err(e) => {
            core::mem::forget(e);
            kani::assume(false);
            unreachable!()
        }
    }
}

// ------------------------------------------------------------------------------------------
// Ghost state shared between harness and stubs
// ------------------------------------------------------------------------------------------
/// ideal-MAC ghost: is the chunk stored at index i authentic (ciphertext and index original)?
static mut AUTHENTIC: [bool; 4] = [true; 4];
/// ghost: everything beyond index 3 shares this flag
static mut AUTHENTIC_REST: bool = true;
/// ghost log of loads
static mut LOADS: u32 = 0;
static mut LAST_LOAD_CHUNK: u32 = 0;
static mut LAST_LOAD_FROM: u64 = 0;
/// ghost: the chunk now in the cache passed tag verification (set by the load contracts)
static mut CACHE_VERIFIED: bool = false;
static mut UNAUTH_LOADS: u32 = 0;

/// every chunk's authenticity is an independent symbolic boolean (draw order a0..a3, rest)
fn any_authenticity() {
    unsafe {
        AUTHENTIC[0] = kani::any();
        AUTHENTIC[1] = kani::any();
        AUTHENTIC[2] = kani::any();
        AUTHENTIC[3] = kani::any();
        AUTHENTIC_REST = kani::any();
    }
}
fn authentic(i: u32) -> bool {
    unsafe {
        if (i as usize) < 4 {
            AUTHENTIC[i as usize]
        } else {
            AUTHENTIC_REST
        }
    }
}

// ------------------------------------------------------------------------------------------
// Load contract. `q` = inner position before, `len` = inner length.
// ------------------------------------------------------------------------------------------
#[derive(Clone, Copy, PartialEq, Eq)]
enum LoadRet {
    None,
    Some,
    ErrTag,
}
struct LoadPost {
    inner_pos: u64,
    cache_len: u64,
    ret: LoadRet,
}
/// authenticated load: reads min(CTS, len-q) bytes; nothing → None; the last 16 are the tag
fn load_spec_auth(q: u64, len: u64, auth: bool) -> LoadPost {
    let avail = len.saturating_sub(q);
    let got = core::cmp::min(avail, SPEC_CTS);
    if got == 0 {
        return LoadPost { inner_pos: q, cache_len: 0, ret: LoadRet::None };
    }
    // a chunk that does not verify, or that is shorter than a tag, is rejected
    if !auth || got < SPEC_TAG {
        return LoadPost { inner_pos: q + got, cache_len: 0, ret: LoadRet::ErrTag };
    }
    LoadPost { inner_pos: q + got, cache_len: got - SPEC_TAG, ret: LoadRet::Some }
}
/// unauthenticated load: reads min(CHUNK, len-q) data bytes, then skips up to 16 tag bytes
fn load_spec_unauth(q: u64, len: u64) -> LoadPost {
    let avail = len.saturating_sub(q);
    let data = core::cmp::min(avail, SPEC_CHUNK);
    if data == 0 {
        return LoadPost { inner_pos: q, cache_len: 0, ret: LoadRet::None };
    }
    let skip = core::cmp::min(avail - data, SPEC_TAG);
    LoadPost { inner_pos: q + data + skip, cache_len: data, ret: LoadRet::Some }
}

/// a Vec<u8> of symbolic length `n <= 131072` without a symbolic-size allocation
fn vec_of_len(n: u64) -> Vec<u8> {
    kani::assume(n <= SPEC_CHUNK);
    let mut v = vec![0u8; SPEC_CHUNK as usize];
    unsafe { v.set_len(n as usize) };
    v
}

/// Stub standing for `EncryptionLayerInternal::load_in_cache` in position harnesses.
fn contract_load_auth<T: ?Sized + Read + Seek>(
    s: &mut EncryptionLayerInternal<T>,
) -> Result<Option<()>, Error> {
    let q = ok(s.inner.seek(SeekFrom::Current(0)));
    let len = ok(s.inner.seek(SeekFrom::End(0)));
    let post = load_spec_auth(q, len, authentic(s.current_chunk_number));
    ok(s.inner.seek(SeekFrom::Start(post.inner_pos)));
    unsafe {
        LOADS += 1;
        LAST_LOAD_CHUNK = s.current_chunk_number;
        LAST_LOAD_FROM = q;
    }
    s.chunk_cache.get_mut().clear();
    s.chunk_cache.set_position(0);
    unsafe { CACHE_VERIFIED = post.ret == LoadRet::Some };
    match post.ret {
        LoadRet::None => Ok(None),
        LoadRet::ErrTag => Err(Error::AuthenticatedDecryptionWrongTag),
        LoadRet::Some => {
            s.chunk_cache = Cursor::new(vec_of_len(post.cache_len));
            Ok(Some(()))
        }
    }
}

/// Stub standing for `EncryptionLayerInternal::load_in_cache_unauthenticated` (generic over the
/// abstract forward-only source: position bookkeeping lives in ghost statics FS_LEN / FS_POS).
fn contract_load_unauth<T: ?Sized + Read>(s: &mut EncryptionLayerInternal<T>) -> Result<Option<()>, Error> {
    let (q, len) = unsafe { (FS_POS, FS_LEN) };
    let post = load_spec_unauth(q, len);
    unsafe {
        FS_POS = post.inner_pos;
        LOADS += 1;
        UNAUTH_LOADS += 1;
        LAST_LOAD_CHUNK = s.current_chunk_number;
        LAST_LOAD_FROM = q;
        CACHE_VERIFIED = false;
    }
    s.chunk_cache.get_mut().clear();
    s.chunk_cache.set_position(0);
    match post.ret {
        LoadRet::Some => {
            s.chunk_cache = Cursor::new(vec_of_len(post.cache_len));
            Ok(Some(()))
        }
        _ => Ok(None),
    }
}
/// unauthenticated-load contract over the seekable abstract stream (normal-reader harnesses: the
/// normal reader must NEVER take this path — UNAUTH_LOADS is asserted to stay 0)
fn contract_load_unauth_abs<T: ?Sized + Read + Seek>(s: &mut EncryptionLayerInternal<T>) -> Result<Option<()>, Error> {
    let q = ok(s.inner.seek(SeekFrom::Current(0)));
    let len = ok(s.inner.seek(SeekFrom::End(0)));
    let post = load_spec_unauth(q, len);
    ok(s.inner.seek(SeekFrom::Start(post.inner_pos)));
    unsafe {
        LOADS += 1;
        UNAUTH_LOADS += 1;
        LAST_LOAD_CHUNK = s.current_chunk_number;
        LAST_LOAD_FROM = q;
        CACHE_VERIFIED = false;
    }
    s.chunk_cache.get_mut().clear();
    s.chunk_cache.set_position(0);
    match post.ret {
        LoadRet::Some => {
            s.chunk_cache = Cursor::new(vec_of_len(post.cache_len));
            Ok(Some(()))
        }
        _ => Ok(None),
    }
}
/// same contract as `contract_load_auth` for the forward-only (fail-safe) source
fn contract_load_auth_fs<T: ?Sized + Read>(s: &mut EncryptionLayerInternal<T>) -> Result<Option<()>, Error> {
    let (q, len) = unsafe { (FS_POS, FS_LEN) };
    let post = load_spec_auth(q, len, authentic(s.current_chunk_number));
    unsafe {
        FS_POS = post.inner_pos;
        LOADS += 1;
        LAST_LOAD_CHUNK = s.current_chunk_number;
        LAST_LOAD_FROM = q;
        CACHE_VERIFIED = post.ret == LoadRet::Some;
    }
    s.chunk_cache.get_mut().clear();
    s.chunk_cache.set_position(0);
    match post.ret {
        LoadRet::None => Ok(None),
        LoadRet::ErrTag => Err(Error::AuthenticatedDecryptionWrongTag),
        LoadRet::Some => {
            s.chunk_cache = Cursor::new(vec_of_len(post.cache_len));
            Ok(Some(()))
        }
    }
}
/// ghost position/length of the forward-only source behind the fail-safe reader
static mut FS_POS: u64 = 0;
static mut FS_LEN: u64 = 0;
/// forward-only source handle (all state in FS_POS / FS_LEN); `read` is never reached when both
/// loads are stubbed
struct FsSrc;
impl Read for FsSrc {
    fn read(&mut self, _buf: &mut [u8]) -> io::Result<usize> {
        unreachable!("loads are stubbed")
    }
}
impl<'a> LayerFailSafeReader<'a, FsSrc> for FsSrc {
    fn into_inner(self) -> Option<Box<dyn 'a + LayerFailSafeReader<'a, FsSrc>>> {
        None
    }
    fn into_raw(self: Box<Self>) -> FsSrc {
        *self
    }
}

fn mk_internal(
    inner: Abs,
    ccn: u32,
    cache_len: u64,
    cache_pos: u64,
) -> EncryptionLayerInternal<Abs> {
    let key = [2u8; 32];
    let nonce = [3u8; NONCE_SIZE];
    // built through the real constructor, then fields are *assigned* (a refactor that adds a field
    // does not break the harness). The repair-only decryption mode of the configuration is
    // symbolic: the normal reader must authenticate whatever it says.
    let cfg = EncryptionReaderConfig {
        private_keys: Vec::new(),
        encrypt_parameters: Some((key, nonce)),
        failsafe_mode: if kani::any() { FailSafeReaderDecryptionMode::OnlyAuthenticatedData } else { FailSafeReaderDecryptionMode::DataEvenUnauthenticated },
    };
    let mut l = match EncryptionLayerInternal::new(Box::new(inner), &cfg) {
        Ok(l) => l,
        Err(e) => {
            core::mem::forget(e);
            kani::assume(false);
            unreachable!()
        }
    };
    core::mem::forget(cfg);
    unsafe { GCM_NEW_CALLS = 0 };
    let mut c = Cursor::new(vec_of_len(cache_len));
    c.set_position(cache_pos);
    l.cipher = model_build(&key, &build_nonce(nonce, ccn));
    l.chunk_cache = c;
    l.current_chunk_number = ccn;
    l
}

/// arbitrary reader pre-state over a stream of `n` bytes (history abstraction: whatever was read
/// or sought before, the fields hold *some* values)
fn any_internal(n: u64) -> EncryptionLayerInternal<Abs> {
    let ipos: u64 = kani::any();
    kani::assume(ipos <= n);
    let ccn: u32 = kani::any();
    let cl: u64 = kani::any();
    let cp: u64 = kani::any();
    kani::assume(cl <= SPEC_CHUNK && cp <= SPEC_CHUNK);
    mk_internal(Abs::new(n, ipos), ccn, cl, cp)
}

/// observable reader state after a successful positioning at plaintext offset `p`
fn assert_positioned(l: &EncryptionLayerInternal<Abs>, n: u64, p: u64) {
    let c = p / SPEC_CHUNK;
    assert!(u64::from(l.current_chunk_number) == c, "chunk number is a function of the target only");
    assert!(l.chunk_cache.position() == p % SPEC_CHUNK, "cache offset is a function of the target only");
    assert!(l.inner.pos == core::cmp::min(n, (c + 1) * SPEC_CTS), "inner stream left after the loaded chunk");
    assert!(l.chunk_cache.get_ref().len() as u64 == chunk_plain_len(n, c), "cache holds exactly the target chunk");
    unsafe {
        assert!(LOADS >= 1 && u64::from(LAST_LOAD_CHUNK) == c && LAST_LOAD_FROM == c * SPEC_CTS, "target chunk (re)loaded and authenticated from its first byte");
        assert!(UNAUTH_LOADS == 0, "the normal reader loaded a chunk without checking its tag");
    }
}

// ------------------------------------------------------------------------------------------
// H-ENC-MAPS: position maps vs FORMAT.md layout (C01, C11)
// ------------------------------------------------------------------------------------------
//@ props: C01 C06 C11
//@ functions: layers::encrypt::no_tag_position_to_tag_position
//@ bounds: every plaintext position p < 2^62
//@ outside: positions >= 2^62 (overflow behaviour is checked under C08)
//@ replay: verif_replay_encrypt::enc_maps p:u64
#[kani::proof]
fn h_enc_maps_fwd() {
    let p: u64 = kani::any();
    kani::assume(p < (1u64 << 62));
    kani::cover!(p % SPEC_CHUNK == 0 && p > 0, "chunk-aligned position");
    kani::cover!(p % SPEC_CHUNK == SPEC_CHUNK - 1, "last byte of a chunk");
    let t = no_tag_position_to_tag_position(p);
    assert!(t == tagged(p), "untagged->tagged map equals p + 16*floor(p/128KiB)");
    assert!(CHUNK_TAG_SIZE == SPEC_CTS && CHUNK_SIZE == SPEC_CHUNK && TAG_LENGTH as u64 == SPEC_TAG, "format constants: 128 KiB chunks, 16-byte tags");
}

/// inverse map on every tagged position (data byte or tag byte) of chunks 0..2^32 (the chunk
/// index is a u32 in the format, so this is the whole reachable domain)
//@ props: C01 C11
//@ functions: layers::encrypt::tag_position_to_no_tag_position; layers::encrypt::no_tag_position_to_tag_position
//@ bounds: every tagged position k*131088+o with chunk index k <= u32::MAX and 0 <= o < 131088 (data and tag bytes)
//@ outside: chunk indices beyond u32 (not representable in the format)
//@ replay: verif_replay_encrypt::enc_maps_inv k:u64 o:u64
#[kani::proof]
fn h_enc_maps_inv() {
    let k: u64 = kani::any();
    kani::assume(k <= u32::MAX as u64);
    let o: u64 = kani::any();
    kani::assume(o < SPEC_CTS);
    kani::cover!(o >= SPEC_CHUNK, "inside a tag");
    kani::cover!(o == 0 && k > 0, "first byte of a later chunk");
    let got = tag_position_to_no_tag_position(k * SPEC_CTS + o);
    if o < SPEC_CHUNK {
        assert!(got == k * SPEC_CHUNK + o, "data position maps back to chunk*128KiB + offset");
        assert!(no_tag_position_to_tag_position(got) == k * SPEC_CTS + o, "maps are inverse on data positions");
    } else {
        assert!(got == (k + 1) * SPEC_CHUNK, "a position inside a tag rounds to the end of its chunk");
    }
}

// ------------------------------------------------------------------------------------------
// H-ENC-SEEK-*: the real Seek::seek over an abstract inner stream, loads by contract
// (C11 positions/end; C10 independence from the pre-state; C01/C03 footer location)
// ------------------------------------------------------------------------------------------
/// stream-length bound of the functional seek harnesses: 2^VERIF_NBITS (quick 40, thorough 48)
const N_BOUND: u64 = 1u64 << env_u32(option_env!("VERIF_NBITS"), 36);
/// native replay can materialise a handful of chunks
const REPLAY_N_CAP: u64 = 6 * SPEC_CTS;

fn any_wf_len() -> u64 {
    let n: u64 = kani::any();
    kani::assume(n < N_BOUND && wf(n));
    if replay_cap!() {
        kani::assume(n <= REPLAY_N_CAP);
    }
    n
}

//@ props: C11 C10 C01
//@ functions: <layers::encrypt::EncryptionLayerInternal<R> as std::io::Seek>::seek (SeekFrom::Start arm); layers::encrypt::no_tag_position_to_tag_position
//@ bounds: every well-formed inner length n < 2^{NBITS} (all residues mod 131088, exact multiples, n = 16); every target 0 <= p <= len; arbitrary pre-state (chunk number, cache length/offset <= 128 KiB, inner position <= n)
//@ stubs: EncryptionLayerInternal::load_in_cache -> load contract (refined by h_enc_load_auth_refines); alloc::fmt::format -> empty; From<mla::Error> for io::Error -> payload-free
//@ outside: inner streams >= 2^{NBITS} bytes; byte values (decided by the load contract + refinement harness)
//@ replay: verif_replay_encrypt::enc_seek op=start n:u64 ipos:u64 ccn:u32 cl:u64 cp:u64 mode:bool p:u64
#[cfg(not(feature = "verif_api_only"))]
#[kani::proof]
#[kani::unwind(3)]
#[kani::stub(alloc::fmt::format, nofmt)]
#[kani::stub(<std::io::Error as std::convert::From<crate::errors::Error>>::from, cheap_from)]
#[kani::stub(crate::crypto::aesgcm::AesGcm256::new, stub_gcm_new)]
#[kani::stub(EncryptionLayerInternal::load_in_cache, contract_load_auth)]
#[kani::stub(EncryptionLayerInternal::load_in_cache_unauthenticated, contract_load_unauth_abs)]
fn h_enc_seek_start() {
    let n = any_wf_len();
    let big_l = plain_len(n);
    let mut l = any_internal(n);
    let p: u64 = kani::any();
    kani::assume(p <= big_l);
    kani::cover!(n % SPEC_CTS == 0, "plaintext length is an exact multiple of 128 KiB");
    kani::cover!(p == big_l && n % SPEC_CTS == 0, "seek to the end, exact multiple");
    kani::cover!(p == big_l && n % SPEC_CTS > 16, "seek to the end, partial last chunk");
    kani::cover!(n == 16, "empty plaintext");
    kani::cover!(p / SPEC_CHUNK >= 2, "third chunk or later");
    let r = l.seek(SeekFrom::Start(p));
    match r {
        Ok(got) => {
            assert!(got == p, "seek(Start(p)) returns p");
            assert_positioned(&l, n, p);
        }
        Err(e) => {
            core::mem::forget(e);
            assert!(false, "seek(Start(p)) with p in [0, len] fails on a well-formed authentic stream");
        }
    }
    core::mem::forget(l);
}

//@ props: C11 C10 C01 C03
//@ functions: <layers::encrypt::EncryptionLayerInternal<R> as std::io::Seek>::seek (SeekFrom::End arm, then Start arm)
//@ bounds: every well-formed inner length n < 2^{NBITS}; every offset -len <= d <= 0 (End(0), End(-4) as used to locate both footers); arbitrary pre-state
//@ stubs: EncryptionLayerInternal::load_in_cache -> load contract (refined by h_enc_load_auth_refines); alloc::fmt::format -> empty; From<mla::Error> for io::Error -> payload-free
//@ outside: inner streams >= 2^{NBITS} bytes; malformed lengths (C08 harnesses)
//@ replay: verif_replay_encrypt::enc_seek op=end n:u64 ipos:u64 ccn:u32 cl:u64 cp:u64 mode:bool d:i64
#[cfg(not(feature = "verif_api_only"))]
#[kani::proof]
#[kani::unwind(3)]
#[kani::stub(alloc::fmt::format, nofmt)]
#[kani::stub(<std::io::Error as std::convert::From<crate::errors::Error>>::from, cheap_from)]
#[kani::stub(crate::crypto::aesgcm::AesGcm256::new, stub_gcm_new)]
#[kani::stub(EncryptionLayerInternal::load_in_cache, contract_load_auth)]
#[kani::stub(EncryptionLayerInternal::load_in_cache_unauthenticated, contract_load_unauth_abs)]
fn h_enc_seek_end() {
    let n = any_wf_len();
    let big_l = plain_len(n);
    let mut l = any_internal(n);
    let d: i64 = kani::any();
    kani::assume(d <= 0 && (-(d as i128)) as u128 <= big_l as u128);
    let want = (big_l as i128 + d as i128) as u64;
    kani::cover!(n % SPEC_CTS == 0, "plaintext length is an exact multiple of 128 KiB");
    kani::cover!(n % SPEC_CTS > 16, "partial last chunk");
    kani::cover!(n == 16, "empty plaintext");
    kani::cover!(d == 0, "End(0)");
    kani::cover!(d == -4 && big_l >= 4, "End(-4): how both footers are located");
    let r = l.seek(SeekFrom::End(d));
    match r {
        Ok(got) => {
            assert!(got == want, "seek(End(d)) returns len + d");
            assert_positioned(&l, n, want);
        }
        Err(e) => {
            core::mem::forget(e);
            assert!(false, "seek(End(d)) with -len <= d <= 0 fails on a well-formed authentic stream");
        }
    }
    core::mem::forget(l);
}

/// reader state "positioned at plaintext offset c" as seek(Start(c)) leaves it
fn positioned_internal(n: u64, c: u64) -> EncryptionLayerInternal<Abs> {
    let ch = c / SPEC_CHUNK;
    let ipos = core::cmp::min(n, (ch + 1) * SPEC_CTS);
    mk_internal(Abs::new(n, ipos), ch as u32, chunk_plain_len(n, ch), c % SPEC_CHUNK)
}

//@ props: C11 C10
//@ functions: <layers::encrypt::EncryptionLayerInternal<R> as std::io::Seek>::seek (SeekFrom::Current arm, then Start arm); layers::encrypt::tag_position_to_no_tag_position
//@ bounds: every well-formed inner length n < 2^{NBITS}; every current offset 0 <= c <= len in both reachable representations (freshly positioned; end of the previous chunk after reading it); every d with 0 <= c+d <= len
//@ stubs: EncryptionLayerInternal::load_in_cache -> load contract; alloc::fmt::format -> empty; From<mla::Error> for io::Error -> payload-free
//@ outside: pre-states not reachable by seek(Start)/sequential reads
//@ replay: verif_replay_encrypt::enc_seek op=current n:u64 c:u64 by_read:bool mode:bool d:i64
#[cfg(not(feature = "verif_api_only"))]
#[kani::proof]
#[kani::unwind(3)]
#[kani::stub(alloc::fmt::format, nofmt)]
#[kani::stub(<std::io::Error as std::convert::From<crate::errors::Error>>::from, cheap_from)]
#[kani::stub(crate::crypto::aesgcm::AesGcm256::new, stub_gcm_new)]
#[kani::stub(EncryptionLayerInternal::load_in_cache, contract_load_auth)]
#[kani::stub(EncryptionLayerInternal::load_in_cache_unauthenticated, contract_load_unauth_abs)]
fn h_enc_seek_current() {
    let n = any_wf_len();
    let big_l = plain_len(n);
    let c: u64 = kani::any();
    kani::assume(c <= big_l);
    // both reachable representations of "at offset c": freshly positioned in chunk c/CHUNK, or
    // (when c is chunk-aligned and > 0) at the very end of the previous chunk after reading it
    let at_end_of_prev: bool = kani::any();
    kani::assume(!at_end_of_prev || (c % SPEC_CHUNK == 0 && c > 0));
    let mut l = if at_end_of_prev {
        let ch = c / SPEC_CHUNK - 1;
        mk_internal(Abs::new(n, core::cmp::min(n, (ch + 1) * SPEC_CTS)), ch as u32, SPEC_CHUNK, SPEC_CHUNK)
    } else {
        positioned_internal(n, c)
    };
    let d: i64 = kani::any();
    let want_i = c as i128 + d as i128;
    kani::assume(want_i >= 0 && want_i <= big_l as i128);
    let want = want_i as u64;
    kani::cover!(d == 0 && c / SPEC_CHUNK == n / SPEC_CTS && n % SPEC_CTS > 16 && c >= SPEC_CHUNK, "position query inside a last partial chunk that is not the first");
    kani::cover!(d == 0 && c == big_l && n % SPEC_CTS == 0, "position query at the end, exact multiple");
    kani::cover!(at_end_of_prev, "at the end of a fully read chunk");
    kani::cover!(d < 0, "backwards");
    kani::cover!(d > 0, "forwards");
    let r = l.seek(SeekFrom::Current(d));
    match r {
        Ok(got) => {
            assert!(got == want, "seek(Current(d)) returns current + d");
            if d != 0 {
                assert_positioned(&l, n, want);
            }
        }
        Err(e) => {
            core::mem::forget(e);
            assert!(false, "seek(Current(d)) inside [0, len] fails on a well-formed authentic stream");
        }
    }
    core::mem::forget(l);
}

// ------------------------------------------------------------------------------------------
// H-ENC-LOAD-*: the REAL load_in_cache / load_in_cache_unauthenticated bodies against the load
// contract (refinement) + totality on any remaining length + ideal-MAC protocol logic
// (C02 short final chunk, C03 tag checked before exposure / nonce bound to index, C08)
// ------------------------------------------------------------------------------------------
/// ghost log of AesGcm256::new calls made by the code under test
static mut GCM_NEW_CALLS: u32 = 0;
static mut GCM_LAST_KEY: Key = [0u8; 32];
static mut GCM_LAST_NONCE: Nonce = [0u8; 12];
/// the 16 bytes the abstract source delivers as the stored tag of every chunk
const TAGPAT: [u8; 16] = [0xA0, 0xA1, 0xA2, 0xA3, 0xA4, 0xA5, 0xA6, 0xA7, 0xA8, 0xA9, 0xAA, 0xAB, 0xAC, 0xAD, 0xAE, 0xAF];

/// stub for `AesGcm256::new`: same struct through the loop-free model constructors + ghost log
fn stub_gcm_new(key: &Key, nonce: &Nonce, _aad: &[u8]) -> Result<AesGcm256, Error> {
    unsafe {
        GCM_NEW_CALLS += 1;
        GCM_LAST_KEY = *key;
        GCM_LAST_NONCE = *nonce;
    }
    Ok(model_build(key, nonce))
}
/// where and how a non-authentic chunk's recomputed tag differs from the stored one (set by the
/// harness: any index 0..16, any non-zero bit pattern)
static mut TAG_DIFF_AT: usize = 0;
static mut TAG_DIFF_BITS: u8 = 1;
/// stub for `AesGcm256::decrypt` — the IDEAL-MAC ASSUMPTION: the recomputed tag equals the stored
/// one iff the chunk under this nonce counter is authentic (ciphertext and index original)
fn stub_gcm_decrypt(c: &mut AesGcm256, _buffer: &mut [u8]) -> Tag {
    // the chunk counter is bits 32..63 of the initial counter block (nonce || ctr || 00000001)
    let ctr = (ghost_iv(c) >> 32) as u32;
    let mut t = Tag::default();
    t.as_mut_slice().copy_from_slice(&TAGPAT);
    if !authentic(ctr) {
        // differs from the stored tag in ONE byte at a symbolic index and in a symbolic non-zero
        // bit pattern: a comparison that skips any byte or bit is caught
        let at = unsafe { TAG_DIFF_AT };
        let bits = unsafe { TAG_DIFF_BITS };
        t[at] ^= bits;
    }
    t
}
/// stand-in for std's `default_read_to_end` driver: ONE read straight into the vector's spare
/// capacity (valid for sources that hand out everything available at once, as `Abs` does); the
/// last 16 bytes delivered are the stored tag pattern. No 128 KiB temporary, no zero-fill loop.
fn model_rte<R: Read + ?Sized>(r: &mut R, buf: &mut Vec<u8>, _hint: Option<usize>) -> io::Result<usize> {
    let len = buf.len();
    let spare = buf.capacity() - len;
    let n = {
        let dst = unsafe { core::slice::from_raw_parts_mut(buf.as_mut_ptr().add(len), spare) };
        r.read(dst)?
    };
    unsafe { buf.set_len(len + n) };
    if n >= 16 {
        let mut i = 0;
        while i < 16 {
            buf[len + n - 16 + i] = TAGPAT[i];
            i += 1;
        }
    }
    Ok(n)
}
/// the same driver for a source whose first read is short (`Abs::short_reads`: <= 7 bytes, then
/// everything): exactly TWO reads into the spare capacity — what std's loop does on such a source
fn model_rte2<R: Read + ?Sized>(r: &mut R, buf: &mut Vec<u8>, _hint: Option<usize>) -> io::Result<usize> {
    let len = buf.len();
    let cap = buf.capacity();
    let n1 = {
        let dst = unsafe { core::slice::from_raw_parts_mut(buf.as_mut_ptr().add(len), cap - len) };
        r.read(dst)?
    };
    unsafe { buf.set_len(len + n1) };
    let n2 = {
        let dst = unsafe { core::slice::from_raw_parts_mut(buf.as_mut_ptr().add(len + n1), cap - len - n1) };
        r.read(dst)?
    };
    unsafe { buf.set_len(len + n1 + n2) };
    let n = n1 + n2;
    if n >= 16 {
        let mut i = 0;
        while i < 16 {
            buf[len + n - 16 + i] = TAGPAT[i];
            i += 1;
        }
    }
    Ok(n)
}

/// stand-in for `Vec::resize` in the load bodies, which only ever shrink the vector there
/// (asserted): avoids the symbolic-size reallocation path of the generic implementation
fn shrink_only_resize<T: Clone, A: core::alloc::Allocator>(v: &mut Vec<T, A>, new_len: usize, _value: T) {
    assert!(new_len <= v.len(), "resize in load_in_cache only shrinks");
    v.truncate(new_len);
}

//@ props: C01 C02 C03 C04 C06 C08 C10 C11 C13
//@ scaled: yes
//@ functions: layers::encrypt::EncryptionLayerInternal::load_in_cache (real body); layers::encrypt::build_nonce; subtle ct_eq on the 16-byte tag
//@ bounds: SCALED build (feature mla_verif: chunk = 4 bytes, tag = 16 bytes unchanged); source delivering everything asked; inner length n <= 3*20+64, any start position q <= n (so every remaining length 0..=3 chunks incl. 1..15 bytes), any chunk counter, arbitrary previous cache
//@ stubs: AesGcm256::new -> same struct via model constructors + ghost log; AesGcm256::decrypt -> IDEAL MAC (tag matches iff chunk authentic); alloc::io::default_read_to_end -> single read into spare capacity; alloc::fmt::format; From<mla::Error> for io::Error
//@ outside: that AES-GCM is a secure MAC
//@ replay: verif_replay_encrypt::enc_load q:u64 n:u64 ccn:u32 auth:bool cl:u64 cp:u64 tag_at:usize tag_bits:u8
#[cfg(not(feature = "verif_api_only"))]
#[kani::proof]
#[kani::unwind(34)]
#[kani::stub(alloc::fmt::format, nofmt)]
#[kani::stub(<std::io::Error as std::convert::From<crate::errors::Error>>::from, cheap_from)]
#[kani::stub(crate::crypto::aesgcm::AesGcm256::new, stub_gcm_new)]
#[kani::stub(crate::crypto::aesgcm::AesGcm256::decrypt, stub_gcm_decrypt)]
#[kani::stub(alloc::io::default_read_to_end, model_rte)]
#[kani::stub(alloc::vec::Vec::resize, shrink_only_resize)]
fn h_enc_load_auth_refines() {
    load_auth_body(false);
}

//@ props: C01 C02 C03 C04 C06 C08 C10 C11 C13
//@ scaled: yes
//@ functions: layers::encrypt::EncryptionLayerInternal::load_in_cache (real body); layers::encrypt::build_nonce; subtle ct_eq on the 16-byte tag
//@ bounds: SCALED build (feature mla_verif: chunk = 4 bytes, tag = 16 bytes unchanged); source one of whose reads delivers at most 7 bytes (auth: the chunk read; unauth: the read skipping the tag); inner length n <= 3*20+64, any start position q <= n (so every remaining length 0..=3 chunks incl. 1..15 bytes), any chunk counter, arbitrary previous cache
//@ stubs: AesGcm256::new -> same struct via model constructors + ghost log; AesGcm256::decrypt -> IDEAL MAC (tag matches iff chunk authentic); alloc::io::default_read_to_end -> exactly two reads into spare capacity; alloc::fmt::format; From<mla::Error> for io::Error
//@ outside: that AES-GCM is a secure MAC
//@ replay: verif_replay_encrypt::enc_load short=1 q:u64 n:u64 ccn:u32 auth:bool cl:u64 cp:u64 tag_at:usize tag_bits:u8
#[cfg(not(feature = "verif_api_only"))]
#[kani::proof]
#[kani::unwind(34)]
#[kani::stub(alloc::fmt::format, nofmt)]
#[kani::stub(<std::io::Error as std::convert::From<crate::errors::Error>>::from, cheap_from)]
#[kani::stub(crate::crypto::aesgcm::AesGcm256::new, stub_gcm_new)]
#[kani::stub(crate::crypto::aesgcm::AesGcm256::decrypt, stub_gcm_decrypt)]
#[kani::stub(alloc::io::default_read_to_end, model_rte2)]
#[kani::stub(alloc::vec::Vec::resize, shrink_only_resize)]
fn h_enc_load_auth_refines_short() {
    load_auth_body(true);
}

#[cfg(not(feature = "verif_api_only"))]
fn load_auth_body(short: bool) {
    let q: u64 = kani::any();
    let n: u64 = kani::any();
    kani::assume(n <= 3 * SPEC_CTS + 64 && q <= n);
    let ccn: u32 = kani::any();
    let auth: bool = kani::any();
    unsafe {
        if (ccn as usize) < 4 {
            AUTHENTIC[ccn as usize] = auth;
        } else {
            AUTHENTIC_REST = auth;
        }
    }
    let cl: u64 = kani::any();
    let cp: u64 = kani::any();
    kani::assume(cl <= SPEC_CHUNK && cp <= SPEC_CHUNK);
    let diff_at: usize = kani::any();
    let diff_bits: u8 = kani::any();
    kani::assume(diff_at < 16 && diff_bits != 0);
    unsafe {
        TAG_DIFF_AT = diff_at;
        TAG_DIFF_BITS = diff_bits;
    }
    let mut src = Abs::new(n, q);
    src.short_reads = short;
    let mut l = mk_internal(src, ccn, cl, cp);
    let rem = n - q;
    kani::cover!(!auth && diff_at == 15 && rem >= SPEC_TAG, "tags differ only in their last byte");
    kani::cover!(rem == 0, "nothing left");
    kani::cover!(rem > 0 && rem < SPEC_TAG, "final chunk shorter than its tag");
    kani::cover!(rem == SPEC_TAG, "empty final chunk");
    kani::cover!(rem > SPEC_CTS, "more than one chunk left");
    kani::cover!(!auth && rem >= SPEC_TAG, "chunk not authentic");
    let r = l.load_in_cache();
    let post = load_spec_auth(q, n, auth);
    assert!(l.inner.pos == post.inner_pos, "load consumes min(remaining, chunk+tag) bytes of the inner stream");
    match r {
        Ok(None) => assert!(post.ret == LoadRet::None, "Ok(None) iff nothing remained"),
        Ok(Some(())) => {
            assert!(post.ret == LoadRet::Some, "a chunk is accepted only if its tag verified");
            assert!(l.chunk_cache.get_ref().len() as u64 == post.cache_len, "cache holds the chunk without its tag");
        }
        Err(e) => {
            core::mem::forget(e);
            assert!(post.ret == LoadRet::ErrTag, "Err only for a chunk that does not authenticate");
            assert!(l.chunk_cache.get_ref().is_empty(), "no byte of a rejected chunk is left in the cache");
        }
    }
    assert!(l.chunk_cache.position() == 0, "cache cursor reset by every load");
    unsafe {
        assert!(GCM_NEW_CALLS == 1 && GCM_LAST_KEY == l.key, "one cipher per chunk, keyed with the archive key");
        assert!(GCM_LAST_NONCE[..8] == l.nonce && GCM_LAST_NONCE[8..] == ccn.to_be_bytes(), "chunk nonce = archive nonce || big-endian chunk index");
    }
    core::mem::forget(l);
}

//@ props: C03 C04 C10
//@ scaled: yes
//@ functions: layers::encrypt::EncryptionLayerInternal::load_in_cache (real body) called TWICE: what an earlier load leaves behind must not change whether a later chunk is checked
//@ bounds: SCALED build; inner length n <= 3*20+64; first load at any position / chunk index 0..=3 (authentic or not), then the reader is moved to any position / chunk index 0..=3 (what every seek arm does) and loads again
//@ stubs: as h_enc_load_auth_refines (ideal MAC; AesGcm256::new via model constructors; single-read read_to_end)
//@ outside: chunk indices > 3; more than one earlier load (any state an earlier load can leave is covered only as far as one load produces it)
//@ replay: verif_replay_encrypt::enc_load_history n:u64 q0:u64 ccn0:u32 auth0:bool q:u64 ccn:u32 auth:bool tag_at:usize tag_bits:u8
#[cfg(not(feature = "verif_api_only"))]
#[kani::proof]
#[kani::unwind(34)]
#[kani::stub(alloc::fmt::format, nofmt)]
#[kani::stub(<std::io::Error as std::convert::From<crate::errors::Error>>::from, cheap_from)]
#[kani::stub(crate::crypto::aesgcm::AesGcm256::new, stub_gcm_new)]
#[kani::stub(crate::crypto::aesgcm::AesGcm256::decrypt, stub_gcm_decrypt)]
#[kani::stub(alloc::io::default_read_to_end, model_rte)]
#[kani::stub(alloc::vec::Vec::resize, shrink_only_resize)]
fn h_enc_load_auth_history() {
    let n: u64 = kani::any();
    let q0: u64 = kani::any();
    kani::assume(n <= 3 * SPEC_CTS + 64 && q0 <= n);
    let ccn0: u32 = kani::any();
    let auth0: bool = kani::any();
    let q: u64 = kani::any();
    let ccn: u32 = kani::any();
    let auth: bool = kani::any();
    kani::assume(q <= n && ccn0 < 4 && ccn < 4);
    // whether a chunk is authentic is a fact about the stream, not about the access
    kani::assume(ccn != ccn0 || auth == auth0);
    let diff_at: usize = kani::any();
    let diff_bits: u8 = kani::any();
    kani::assume(diff_at < 16 && diff_bits != 0);
    unsafe {
        TAG_DIFF_AT = diff_at;
        TAG_DIFF_BITS = diff_bits;
        AUTHENTIC[ccn0 as usize] = auth0;
        AUTHENTIC[ccn as usize] = auth;
    }
    let mut l = mk_internal(Abs::new(n, q0), ccn0, 0, 0);
    let r0 = l.load_in_cache();
    core::mem::forget(r0);
    kani::cover!(auth0 && ccn0 > ccn && !auth && n - q >= SPEC_TAG, "a later chunk was accepted first, then an altered earlier chunk is loaded");
    kani::cover!(auth0 && ccn0 < ccn && !auth && n - q >= SPEC_TAG, "an earlier chunk was accepted first, then an altered later chunk is loaded");
    // move (as the seek arms do), then load again
    l.inner.pos = q;
    l.inner.calls = 0;
    l.current_chunk_number = ccn;
    unsafe { GCM_NEW_CALLS = 0 };
    let r = l.load_in_cache();
    let post = load_spec_auth(q, n, auth);
    assert!(l.inner.pos == post.inner_pos, "load consumes min(remaining, chunk+tag) bytes of the inner stream");
    match r {
        Ok(None) => assert!(post.ret == LoadRet::None, "Ok(None) iff nothing remained"),
        Ok(Some(())) => {
            assert!(post.ret == LoadRet::Some, "a chunk is accepted only if its tag verified — whatever was loaded before");
            assert!(l.chunk_cache.get_ref().len() as u64 == post.cache_len, "cache holds the chunk without its tag");
        }
        Err(e) => {
            core::mem::forget(e);
            assert!(post.ret == LoadRet::ErrTag, "Err only for a chunk that does not authenticate");
            assert!(l.chunk_cache.get_ref().is_empty(), "no byte of a rejected chunk is left in the cache");
        }
    }
    unsafe {
        assert!(GCM_NEW_CALLS == 1 && GCM_LAST_NONCE[8..] == ccn.to_be_bytes(), "the chunk is verified under its own index");
    }
    core::mem::forget(l);
}

//@ props: C03 C10
//@ scaled: yes
//@ functions: <layers::encrypt::EncryptionLayerInternal<R> as std::io::Seek>::seek (Start arm) over the REAL load_in_cache body — public Seek interface only: the loader is not named, so a loader whose signature changes is still reached
//@ bounds: SCALED build; inner length n <= 3*20+64; reader standing at ANY earlier chunk index 0..=8 (as an earlier seek leaves it), absolute target 0..=16 (backward, forward or same chunk); authenticity of chunks 0..=3 and of the rest symbolic
//@ stubs: AesGcm256::decrypt -> ideal MAC; AesGcm256::new via model constructors; single-read read_to_end; shrink-only resize; alloc::fmt::format; From<mla::Error> for io::Error
//@ outside: End / Current arms with the real loader (they end in the Start arm; decided over the load contract by h_enc_seek_*); two real seeks in a row (the release of what the first call leaves is flagged by the back end after the Ok/Err join: artefact, DESIGN §13.3) — state left by an earlier load is h_enc_load_auth_history's subject
//@ api_only: yes
//@ replay: verif_replay_encrypt::enc_seek_twice n:u64 ccn0:u32 p:u64 a0:bool a1:bool a2:bool a3:bool ar:bool tag_at:usize tag_bits:u8
#[kani::proof]
#[kani::unwind(34)]
#[kani::stub(alloc::fmt::format, nofmt)]
#[kani::stub(<std::io::Error as std::convert::From<crate::errors::Error>>::from, cheap_from)]
#[kani::stub(crate::crypto::aesgcm::AesGcm256::new, stub_gcm_new)]
#[kani::stub(crate::crypto::aesgcm::AesGcm256::decrypt, stub_gcm_decrypt)]
#[kani::stub(alloc::io::default_read_to_end, model_rte)]
#[kani::stub(alloc::vec::Vec::resize, shrink_only_resize)]
fn h_enc_seek_real() {
    let n: u64 = kani::any();
    let ccn0: u32 = kani::any();
    let p: u64 = kani::any();
    kani::assume(n <= 3 * SPEC_CTS + 64 && ccn0 <= 8 && p <= 16);
    any_authenticity();
    let diff_at: usize = kani::any();
    let diff_bits: u8 = kani::any();
    kani::assume(diff_at < 16 && diff_bits != 0);
    unsafe {
        TAG_DIFF_AT = diff_at;
        TAG_DIFF_BITS = diff_bits;
    }
    // the reader stands where an earlier access to chunk ccn0 left it
    let ipos = core::cmp::min(n, (u64::from(ccn0) + 1) * SPEC_CTS);
    let mut l = mk_internal(Abs::new(n, ipos), ccn0, 0, 0);
    let ch = (p / SPEC_CHUNK) as u32;
    kani::cover!(ch < ccn0 && !authentic(ch) && u64::from(ch + 1) * SPEC_CTS <= n, "backward seek onto an altered chunk");
    kani::cover!(ch > ccn0 && !authentic(ch) && u64::from(ch + 1) * SPEC_CTS <= n, "forward seek onto an altered chunk");
    let r = l.seek(SeekFrom::Start(p));
    match r {
        Ok(_) => {
            if !l.chunk_cache.get_ref().is_empty() {
                assert!(authentic(ch), "after seek(Start(p)) the reader holds bytes of a chunk whose tag did not verify");
                assert!(l.current_chunk_number == ch, "the cached chunk is the one the position lies in");
            }
        }
        Err(e) => {
            core::mem::forget(e);
            assert!(l.chunk_cache.get_ref().is_empty(), "a failed seek leaves bytes of a rejected chunk readable");
        }
    }
    core::mem::forget(l);
}

/// stand-in for `std::io::copy` where the unauthenticated load skips the tag: two reads of <= 32
/// bytes forwarded with write_all (std's driver zero-fills an 8 KiB stack buffer in a loop)
fn copy_tag_skip<R: Read + ?Sized, W: Write + ?Sized>(r: &mut R, w: &mut W) -> io::Result<u64> {
    let mut tmp = [0u8; 32];
    let n1 = r.read(&mut tmp)?;
    w.write_all(&tmp[..n1])?;
    let n2 = r.read(&mut tmp)?;
    w.write_all(&tmp[..n2])?;
    Ok((n1 + n2) as u64)
}

//@ props: C02 C04 C05 C13 C14
//@ scaled: yes
//@ functions: layers::encrypt::EncryptionLayerInternal::load_in_cache_unauthenticated (real body); AesGcm256::decrypt_unauthenticated over the model keystream
//@ bounds: SCALED build (chunk = 4 bytes, tag 16); source delivering everything asked; inner length n <= 3*20+64, any start q <= n (every remaining length incl. a cut inside data or inside a tag), any chunk counter, arbitrary previous cache
//@ stubs: AesGcm256::new -> same struct via model constructors + ghost log; alloc::io::default_read_to_end -> single read into spare capacity; std::io::copy -> single read + write_all; alloc::fmt::format; From<mla::Error> for io::Error
//@ outside: -
//@ replay: verif_replay_encrypt::enc_load_unauth q:u64 n:u64 ccn:u32
#[cfg(not(feature = "verif_api_only"))]
#[kani::proof]
#[kani::unwind(34)]
#[kani::stub(alloc::fmt::format, nofmt)]
#[kani::stub(<std::io::Error as std::convert::From<crate::errors::Error>>::from, cheap_from)]
#[kani::stub(crate::crypto::aesgcm::AesGcm256::new, stub_gcm_new)]
#[kani::stub(alloc::io::default_read_to_end, model_rte)]
#[kani::stub(std::io::copy, copy_tag_skip)]
fn h_enc_load_unauth_refines() {
    load_unauth_body(false);
}

//@ props: C02 C04 C05 C13 C14
//@ scaled: yes
//@ functions: layers::encrypt::EncryptionLayerInternal::load_in_cache_unauthenticated (real body); AesGcm256::decrypt_unauthenticated over the model keystream
//@ bounds: SCALED build (chunk = 4 bytes, tag 16); source one of whose reads delivers at most 7 bytes (auth: the chunk read; unauth: the read skipping the tag); inner length n <= 3*20+64, any start q <= n (every remaining length incl. a cut inside data or inside a tag), any chunk counter, arbitrary previous cache
//@ stubs: AesGcm256::new -> same struct via model constructors + ghost log; alloc::io::default_read_to_end -> exactly two reads into spare capacity; std::io::copy -> single read + write_all; alloc::fmt::format; From<mla::Error> for io::Error
//@ outside: -
//@ replay: verif_replay_encrypt::enc_load_unauth short=1 q:u64 n:u64 ccn:u32
#[cfg(not(feature = "verif_api_only"))]
#[kani::proof]
#[kani::unwind(34)]
#[kani::stub(alloc::fmt::format, nofmt)]
#[kani::stub(<std::io::Error as std::convert::From<crate::errors::Error>>::from, cheap_from)]
#[kani::stub(crate::crypto::aesgcm::AesGcm256::new, stub_gcm_new)]
#[kani::stub(alloc::io::default_read_to_end, model_rte2)]
#[kani::stub(std::io::copy, copy_tag_skip)]
fn h_enc_load_unauth_refines_short() {
    load_unauth_body(true);
}

#[cfg(not(feature = "verif_api_only"))]
fn load_unauth_body(short: bool) {
    let q: u64 = kani::any();
    let n: u64 = kani::any();
    kani::assume(n <= 3 * SPEC_CTS + 64 && q <= n);
    let ccn: u32 = kani::any();
    let cl: u64 = kani::any();
    let cp: u64 = kani::any();
    kani::assume(cl <= SPEC_CHUNK && cp <= SPEC_CHUNK);
    let mut src = Abs::new(n, q);
    src.short_reads = short;
    src.short_mask = 0b010; // the data read is complete, the read that skips the tag is short
    let mut l = mk_internal(src, ccn, cl, cp);
    let rem = n - q;
    kani::cover!(rem == 0, "nothing left");
    kani::cover!(rem > 0 && rem < SPEC_CHUNK, "cut inside the data of the final chunk");
    kani::cover!(rem > SPEC_CHUNK && rem < SPEC_CTS, "cut inside the tag of the final chunk");
    kani::cover!(rem > SPEC_CTS, "more than one chunk left");
    let r = l.load_in_cache_unauthenticated();
    let post = load_spec_unauth(q, n);
    assert!(l.inner.pos == post.inner_pos, "unauthenticated load consumes min(remaining, chunk) data bytes then up to 16 tag bytes");
    match r {
        Ok(None) => assert!(post.ret == LoadRet::None, "Ok(None) iff nothing remained"),
        Ok(Some(())) => {
            assert!(post.ret == LoadRet::Some);
            assert!(l.chunk_cache.get_ref().len() as u64 == post.cache_len, "cache holds every data byte present");
        }
        Err(e) => {
            core::mem::forget(e);
            assert!(false, "unauthenticated load never fails on a readable source");
        }
    }
    assert!(l.chunk_cache.position() == 0, "cache cursor reset by every load");
    unsafe {
        assert!(GCM_NEW_CALLS == 1, "one cipher per chunk");
        assert!(GCM_LAST_NONCE[8..] == ccn.to_be_bytes(), "keystream of chunk i uses counter i");
    }
    core::mem::forget(l);
}

// ------------------------------------------------------------------------------------------
// H-ENC-READ-STEP: one real read_internal from any *positioned* state (C03 no exposure,
// C10/C11 sequential reading = cursor semantics, C05 completeness of the normal reader)
// ------------------------------------------------------------------------------------------
//@ props: C03 C10 C11 C01
//@ functions: layers::encrypt::EncryptionLayerInternal::read_internal (real body incl. chunk renewal recursion)
//@ bounds: production constants; every well-formed inner length n < 2^{NBITS}; every reader position 0 <= c <= len in both reachable representations; caller buffer length 0..=8; chunk authenticity symbolic
//@ stubs: EncryptionLayerInternal::load_in_cache -> load contract (ideal MAC); alloc::fmt::format; From<mla::Error> for io::Error
//@ outside: buffers > 8 bytes (the code only takes min(buffer, cache remainder)); byte values (std Cursor read is trusted)
//@ replay: verif_replay_encrypt::enc_read n:u64 c:u64 by_read:bool blen:usize a0:bool a1:bool a2:bool a3:bool ar:bool mode:bool
#[cfg(not(feature = "verif_api_only"))]
#[kani::proof]
#[kani::unwind(3)]
#[kani::stub(alloc::fmt::format, nofmt)]
#[kani::stub(<std::io::Error as std::convert::From<crate::errors::Error>>::from, cheap_from)]
#[kani::stub(crate::crypto::aesgcm::AesGcm256::new, stub_gcm_new)]
#[kani::stub(EncryptionLayerInternal::load_in_cache, contract_load_auth)]
#[kani::stub(EncryptionLayerInternal::load_in_cache_unauthenticated, contract_load_unauth_abs)]
fn h_enc_read_step() {
    let n = any_wf_len();
    let big_l = plain_len(n);
    let c: u64 = kani::any();
    kani::assume(c <= big_l);
    let at_end_of_prev: bool = kani::any();
    kani::assume(!at_end_of_prev || (c % SPEC_CHUNK == 0 && c > 0));
    let blen: usize = kani::any();
    kani::assume(blen <= 8);
    any_authenticity();
    let mut l = if at_end_of_prev {
        let ch = c / SPEC_CHUNK - 1;
        mk_internal(Abs::new(n, core::cmp::min(n, (ch + 1) * SPEC_CTS)), ch as u32, SPEC_CHUNK, SPEC_CHUNK)
    } else {
        positioned_internal(n, c)
    };
    let next_chunk = (c / SPEC_CHUNK) as u32;
    let needs_load = at_end_of_prev;
    kani::cover!(needs_load && c == big_l, "renewal at the very end (exact multiple)");
    kani::cover!(needs_load && c < big_l && !authentic(next_chunk), "renewal hits a chunk that does not authenticate");
    kani::cover!(!needs_load && c == big_l, "at the end inside a partial last chunk");
    kani::cover!(blen == 0, "empty buffer");
    let mut buf = [0u8; 8];
    let r = l.read_internal(&mut buf[..blen]);
    let in_chunk_left = core::cmp::min(SPEC_CHUNK - c % SPEC_CHUNK, big_l - c);
    assert!(unsafe { UNAUTH_LOADS } == 0, "the normal reader loaded a chunk without checking its tag (whatever the repair-only option says)");
    match r {
        Ok(k) => {
            if needs_load && c < big_l {
                assert!(authentic(next_chunk), "data of a chunk is returned only after its tag verified");
                unsafe { assert!(CACHE_VERIFIED && LOADS == 1 && LAST_LOAD_CHUNK == next_chunk && LAST_LOAD_FROM == u64::from(next_chunk) * SPEC_CTS) };
            }
            assert!(k as u64 == core::cmp::min(blen as u64, in_chunk_left), "read returns min(buffer, rest of chunk, rest of stream): 0 only for an empty buffer or at the end");
            let np = c + k as u64;
            assert!(u64::from(l.current_chunk_number) * SPEC_CHUNK + l.chunk_cache.position() == np, "position advances by the count returned");
        }
        Err(e) => {
            core::mem::forget(e);
            assert!(needs_load && c < big_l && !authentic(next_chunk), "read fails only when the next chunk does not authenticate");
            assert!(l.chunk_cache.get_ref().is_empty(), "nothing of the rejected chunk stays readable");
        }
    }
    core::mem::forget(l);
}

// ------------------------------------------------------------------------------------------
// H-ENC-FS-*: fail-safe (repair) reader of the encryption layer (C04, C05, C02)
// ------------------------------------------------------------------------------------------
fn mk_fs(mode: FailSafeReaderDecryptionMode, ccn: u32, cache_len: u64, cache_pos: u64) -> EncryptionLayerFailSafeReader<'static, FsSrc> {
    let key = [2u8; 32];
    let nonce = [3u8; NONCE_SIZE];
    let cfg = EncryptionReaderConfig { private_keys: Vec::new(), encrypt_parameters: Some((key, nonce)), failsafe_mode: mode };
    let inner: Box<dyn LayerFailSafeReader<'static, FsSrc>> = Box::new(FsSrc);
    // real constructor over an (at that moment) empty source, then the state under study is assigned
    let (len0, pos0) = unsafe { (FS_LEN, FS_POS) };
    unsafe {
        FS_LEN = 0;
        FS_POS = 0;
    }
    let mut r = match EncryptionLayerFailSafeReader::new(inner, &cfg) {
        Ok(r) => r,
        Err(e) => {
            core::mem::forget(e);
            kani::assume(false);
            unreachable!()
        }
    };
    core::mem::forget(cfg);
    unsafe {
        FS_LEN = len0;
        FS_POS = pos0;
        LOADS = 0;
        UNAUTH_LOADS = 0;
        GCM_NEW_CALLS = 0;
    }
    let mut c = Cursor::new(vec_of_len(cache_len));
    c.set_position(cache_pos);
    r.internal.cipher = model_build(&key, &build_nonce(nonce, ccn));
    r.internal.chunk_cache = c;
    r.internal.current_chunk_number = ccn;
    r
}

/// every chunk 0..=i authentic
fn prefix_authentic(i: u32) -> bool {
    let mut j = 0u32;
    let mut okk = true;
    while j < 4 {
        if j <= i && !authentic(j) {
            okk = false;
        }
        j += 1;
    }
    if i >= 4 && !authentic(4) {
        okk = false;
    }
    okk
}

//@ props: C02 C05
//@ functions: layers::encrypt::EncryptionLayerFailSafeReader::new; <EncryptionLayerFailSafeReader<R> as std::io::Read>::read
//@ bounds: EMPTY inner stream (an archive cut right after its header: the writer emits nothing until data arrives), both repair modes, buffer 1..=8
//@ stubs: load_in_cache / load_in_cache_unauthenticated -> load contracts (decided by the refinement harnesses); AesGcm256::new via model constructors; alloc::fmt::format; From<mla::Error> for io::Error
//@ outside: -
//@ replay: verif_replay_encrypt::enc_fs_new_empty
#[cfg(not(feature = "verif_api_only"))]
#[kani::proof]
#[kani::unwind(5)]
#[kani::stub(alloc::fmt::format, nofmt)]
#[kani::stub(<std::io::Error as std::convert::From<crate::errors::Error>>::from, cheap_from)]
#[kani::stub(crate::crypto::aesgcm::AesGcm256::new, stub_gcm_new)]
#[kani::stub(EncryptionLayerInternal::load_in_cache, contract_load_auth_fs)]
#[kani::stub(EncryptionLayerInternal::load_in_cache_unauthenticated, contract_load_unauth)]
fn h_enc_fs_new_empty() {
    let unauth: bool = kani::any();
    let mode = if unauth { FailSafeReaderDecryptionMode::DataEvenUnauthenticated } else { FailSafeReaderDecryptionMode::OnlyAuthenticatedData };
    let cfg = EncryptionReaderConfig { private_keys: Vec::new(), encrypt_parameters: Some(([2u8; 32], [3u8; NONCE_SIZE])), failsafe_mode: mode };
    let inner: Box<dyn LayerFailSafeReader<'static, FsSrc>> = Box::new(FsSrc);
    unsafe {
        FS_LEN = 0;
        FS_POS = 0;
    }
    any_authenticity();
    let made = EncryptionLayerFailSafeReader::new(inner, &cfg);
    core::mem::forget(cfg);
    match made {
        Ok(mut r) => {
            let b: usize = kani::any();
            kani::assume(b >= 1 && b <= 8);
            let mut buf = [0u8; 8];
            let res = r.read(&mut buf[..b]);
            match res {
                Ok(k) => assert!(k == 0, "bytes out of an empty stream"),
                Err(e) => {
                    core::mem::forget(e);
                    assert!(false, "reading an empty (cut right after the header) stream fails instead of ending");
                }
            }
            kani::cover!(true, "constructed and read");
            core::mem::forget(r);
        }
        Err(e) => {
            core::mem::forget(e);
            assert!(false, "the repair reader cannot be built over an empty stream: an archive cut right after its header is not repairable");
        }
    }
}

//@ props: C04 C05 C02
//@ functions: <layers::encrypt::EncryptionLayerFailSafeReader<R> as std::io::Read>::read (authenticated mode); layers::encrypt::EncryptionLayerInternal::read_internal
//@ bounds: production constants; ANY inner length n < 2^{NBITS} (truncation anywhere, also inside a tag or 1..15 bytes after a chunk edge); two consecutive reads from a state holding verified chunk i with any cache offset; authenticity of every chunk symbolic; buffers 0..=8
//@ stubs: load_in_cache -> load contract (ideal MAC); load_in_cache_unauthenticated -> load contract; alloc::fmt::format; From<mla::Error> for io::Error
//@ outside: the repair block loop above the layer (HashMap-bound); byte values
//@ known: F4
//@ replay: verif_replay_encrypt::enc_fs_auth n:u64 i:u32 cp:u64 a0:bool a1:bool a2:bool a3:bool ar:bool b1:usize b2:usize
#[cfg(not(feature = "verif_api_only"))]
#[kani::proof]
#[kani::unwind(5)]
#[kani::stub(alloc::fmt::format, nofmt)]
#[kani::stub(<std::io::Error as std::convert::From<crate::errors::Error>>::from, cheap_from)]
#[kani::stub(crate::crypto::aesgcm::AesGcm256::new, stub_gcm_new)]
#[kani::stub(EncryptionLayerInternal::load_in_cache, contract_load_auth_fs)]
#[kani::stub(EncryptionLayerInternal::load_in_cache_unauthenticated, contract_load_unauth)]
fn h_enc_fs_read_auth() {
    let n: u64 = kani::any();
    kani::assume(n < N_BOUND);
    if replay_cap!() {
        kani::assume(n <= REPLAY_N_CAP);
    }
    // pre-state: chunk i is in the cache and was verified, like all chunks before it
    let i: u32 = kani::any();
    let cp: u64 = kani::any();
    any_authenticity();
    kani::assume(u64::from(i) * SPEC_CTS + SPEC_TAG <= n);
    let avail_i = core::cmp::min(n - u64::from(i) * SPEC_CTS, SPEC_CTS);
    let cl = avail_i - SPEC_TAG;
    kani::assume(cp <= cl);
    kani::assume(prefix_authentic(i));
    unsafe {
        FS_LEN = n;
        FS_POS = u64::from(i) * SPEC_CTS + avail_i;
    }
    let mut r = mk_fs(FailSafeReaderDecryptionMode::OnlyAuthenticatedData, i, cl, cp);
    // (set after construction: the constructor itself performs an unauthenticated load)
    unsafe { CACHE_VERIFIED = true };
    let b1: usize = kani::any();
    let b2: usize = kani::any();
    kani::assume(b1 >= 1 && b1 <= 8 && b2 >= 1 && b2 <= 8);
    let next_rem = n - unsafe { FS_POS };
    kani::cover!(cp == SPEC_CHUNK && next_rem > 0 && next_rem < SPEC_TAG, "next chunk shorter than its tag");
    kani::cover!(cp == SPEC_CHUNK && next_rem >= SPEC_TAG && !authentic(i + 1), "next chunk complete but not authentic");
    kani::cover!(cp == SPEC_CHUNK && next_rem >= SPEC_TAG && authentic(i + 1), "next chunk authentic");
    kani::cover!(cp == cl && cl < SPEC_CHUNK, "end of a partial last chunk");
    let mut buf = [0u8; 8];
    // ---- first read
    let r1 = r.read(&mut buf[..b1]);
    let mut stopped = false;
    match r1 {
        Ok(k) => {
            if k > 0 {
                let ch = r.internal.current_chunk_number;
                assert!(unsafe { CACHE_VERIFIED } && prefix_authentic(ch), "authenticated repair returns bytes only from chunks whose tag verified, contiguously from the start");
            } else {
                // end of what may be used: nothing left in this chunk and no next chunk that verifies
                assert!(cp == cl, "Ok(0) with authenticated bytes still unread in the current chunk");
                let full = cl == SPEC_CHUNK;
                let next_ok = full && next_rem >= SPEC_TAG && authentic(i + 1) && next_rem > SPEC_TAG;
                assert!(!next_ok, "Ok(0) although the next chunk is complete, authentic and non-empty");
                stopped = true;
            }
        }
        Err(e) => {
            core::mem::forget(e);
            assert!(false, "authenticated fail-safe read reports a rejected chunk as end of data, not as an error");
        }
    }
    // ---- second read: once stopped, stays stopped (nothing decoded after a failed chunk is used)
    let loads_before = unsafe { LOADS };
    let r2 = r.read(&mut buf[..b2]);
    match r2 {
        Ok(k) => {
            if stopped {
                assert!(k == 0, "bytes returned after the stream was declared finished (data after a failed chunk is used)");
                assert!(unsafe { LOADS } == loads_before, "no further chunk is loaded after the stop");
            } else if k > 0 {
                let ch = r.internal.current_chunk_number;
                assert!(unsafe { CACHE_VERIFIED } && prefix_authentic(ch), "authenticated repair returns bytes only from verified chunks (second read)");
            }
        }
        Err(e) => {
            core::mem::forget(e);
            assert!(false, "authenticated fail-safe read reports a rejected chunk as end of data, not as an error (second read)");
        }
    }
    core::mem::forget(r);
}

//@ props: C04 C05 C02 C14
//@ functions: <layers::encrypt::EncryptionLayerFailSafeReader<R> as std::io::Read>::read (unauthenticated mode); layers::encrypt::EncryptionLayerInternal::read_internal_unauthenticated
//@ bounds: production constants; ANY inner length n < 2^{NBITS}; one read from a state holding chunk i (any cache offset); buffers 1..=8
//@ stubs: load_in_cache_unauthenticated -> load contract; alloc::fmt::format; From<mla::Error> for io::Error
//@ outside: the repair block loop above the layer; byte values
//@ replay: verif_replay_encrypt::enc_fs_unauth n:u64 i:u32 cp:u64 b1:usize
#[cfg(not(feature = "verif_api_only"))]
#[kani::proof]
#[kani::unwind(5)]
#[kani::stub(alloc::fmt::format, nofmt)]
#[kani::stub(<std::io::Error as std::convert::From<crate::errors::Error>>::from, cheap_from)]
#[kani::stub(crate::crypto::aesgcm::AesGcm256::new, stub_gcm_new)]
#[kani::stub(EncryptionLayerInternal::load_in_cache, contract_load_auth_fs)]
#[kani::stub(EncryptionLayerInternal::load_in_cache_unauthenticated, contract_load_unauth)]
fn h_enc_fs_read_unauth() {
    let n: u64 = kani::any();
    kani::assume(n < N_BOUND);
    if replay_cap!() {
        kani::assume(n <= REPLAY_N_CAP);
    }
    let i: u32 = kani::any();
    let cp: u64 = kani::any();
    kani::assume(u64::from(i) * SPEC_CTS < n);
    // chunk i as the unauthenticated load leaves it: every data byte present, tag (or its rest) skipped
    let avail_i = n - u64::from(i) * SPEC_CTS;
    let cl = core::cmp::min(avail_i, SPEC_CHUNK);
    kani::assume(cp <= cl);
    unsafe {
        FS_LEN = n;
        FS_POS = u64::from(i) * SPEC_CTS + core::cmp::min(avail_i, SPEC_CTS);
    }
    let mut r = mk_fs(FailSafeReaderDecryptionMode::DataEvenUnauthenticated, i, cl, cp);
    let b1: usize = kani::any();
    kani::assume(b1 >= 1 && b1 <= 8);
    let next_rem = n - unsafe { FS_POS };
    kani::cover!(cp == SPEC_CHUNK && next_rem > 0 && next_rem < SPEC_CHUNK, "next chunk cut inside its data");
    kani::cover!(cp == SPEC_CHUNK && next_rem == 0, "stream ends exactly after a tag");
    kani::cover!(cp == cl && cl < SPEC_CHUNK, "end of a cut chunk");
    let mut buf = [0u8; 8];
    let r1 = r.read(&mut buf[..b1]);
    match r1 {
        Ok(k) => {
            let left_here = cl - cp;
            if left_here > 0 {
                assert!(k as u64 == core::cmp::min(b1 as u64, left_here), "unauthenticated repair returns the data present in the current chunk");
            } else if cl == SPEC_CHUNK && next_rem > 0 {
                assert!(k as u64 == core::cmp::min(b1 as u64, core::cmp::min(next_rem, SPEC_CHUNK)), "unauthenticated repair continues with every data byte of the next chunk");
                assert!(unsafe { UNAUTH_LOADS } == 1 && r.internal.current_chunk_number == i + 1);
            } else {
                assert!(k == 0, "Ok(0) only when no data byte is left in the stream");
            }
        }
        Err(e) => {
            core::mem::forget(e);
            assert!(false, "unauthenticated fail-safe read never fails on a readable source");
        }
    }
    core::mem::forget(r);
}

//@ props: C04
//@ functions: layers::encrypt::EncryptionLayerFailSafeReader::new; layers::encrypt::EncryptionLayerInternal::new
//@ bounds: production constants; any inner length n < 2^{NBITS}; authenticity of chunk 0 symbolic
//@ stubs: load_in_cache / load_in_cache_unauthenticated -> load contracts; AesGcm256::new -> model constructors; alloc::fmt::format; From<mla::Error> for io::Error
//@ expect_fail: F4
//@ replay: verif_replay_encrypt::enc_fs_first n:u64 a0:bool
#[cfg(not(feature = "verif_api_only"))]
#[kani::proof]
#[kani::unwind(5)]
#[kani::stub(alloc::fmt::format, nofmt)]
#[kani::stub(<std::io::Error as std::convert::From<crate::errors::Error>>::from, cheap_from)]
#[kani::stub(crate::crypto::aesgcm::AesGcm256::new, stub_gcm_new)]
#[kani::stub(EncryptionLayerInternal::load_in_cache, contract_load_auth_fs)]
#[kani::stub(EncryptionLayerInternal::load_in_cache_unauthenticated, contract_load_unauth)]
fn h_enc_fs_first_chunk_auth() {
    let n: u64 = kani::any();
    kani::assume(n < N_BOUND && n > SPEC_TAG);
    if replay_cap!() {
        kani::assume(n <= REPLAY_N_CAP);
    }
    let a0: bool = kani::any();
    unsafe {
        AUTHENTIC[0] = a0;
        FS_LEN = n;
        FS_POS = 0;
    }
    let cfg = EncryptionReaderConfig {
        private_keys: Vec::new(),
        encrypt_parameters: Some(([2u8; 32], [3u8; NONCE_SIZE])),
        failsafe_mode: FailSafeReaderDecryptionMode::OnlyAuthenticatedData,
    };
    let inner: Box<dyn LayerFailSafeReader<'static, FsSrc>> = Box::new(FsSrc);
    let made = EncryptionLayerFailSafeReader::new(inner, &cfg);
    let mut r = match made {
        Ok(r) => r,
        Err(e) => {
            core::mem::forget(e);
            kani::assume(false);
            unreachable!()
        }
    };
    let mut buf = [0u8; 4];
    let r1 = r.read(&mut buf);
    if let Ok(k) = r1 {
        if k > 0 {
            assert!(unsafe { CACHE_VERIFIED } && authentic(0), "authenticated repair exposes bytes of chunk 0 although its tag was never checked");
        }
    }
    core::mem::forget(r1);
    core::mem::forget(r);
}

// ------------------------------------------------------------------------------------------
// C08: totality of the seek arithmetic on ANY inner length and ANY offset
// ------------------------------------------------------------------------------------------
//@ props: C08
//@ functions: <layers::encrypt::EncryptionLayerInternal<R> as std::io::Seek>::seek (all three arms); no_tag_position_to_tag_position; tag_position_to_no_tag_position
//@ bounds: production constants; ANY inner length (full u64, not only well-formed, incl. shorter than a tag); ANY SeekFrom variant with ANY u64/i64 offset; arbitrary pre-state; inner stream rejects negative/overflowing targets with an error like std::io::Cursor
//@ stubs: EncryptionLayerInternal::load_in_cache -> load contract (its real body is total by h_enc_load_auth_refines); alloc::fmt::format; From<mla::Error> for io::Error
//@ outside: nothing is asserted about results here — the claim is only that no panic (overflow, unwrap, index) is reachable
//@ replay: verif_replay_encrypt::enc_seek_total n:u64 ipos:u64 ccn:u32 cl:u64 cp:u64 mode:bool which:u8 off:u64
#[cfg(not(feature = "verif_api_only"))]
#[kani::proof]
#[kani::unwind(3)]
#[kani::stub(alloc::fmt::format, nofmt)]
#[kani::stub(<std::io::Error as std::convert::From<crate::errors::Error>>::from, cheap_from)]
#[kani::stub(crate::crypto::aesgcm::AesGcm256::new, stub_gcm_new)]
#[kani::stub(EncryptionLayerInternal::load_in_cache, contract_load_auth)]
fn h_enc_seek_total() {
    let n: u64 = kani::any();
    let ipos: u64 = kani::any();
    let ccn: u32 = kani::any();
    let cl: u64 = kani::any();
    let cp: u64 = kani::any();
    kani::assume(cl <= SPEC_CHUNK && cp <= SPEC_CHUNK);
    if replay_cap!() {
        kani::assume(n <= REPLAY_N_CAP);
    }
    let mut l = mk_internal(Abs::strict(n, ipos), ccn, cl, cp);
    let which: u8 = kani::any();
    let off: u64 = kani::any();
    let sf = match which % 3 {
        0 => SeekFrom::Start(off),
        1 => SeekFrom::Current(off as i64),
        _ => SeekFrom::End(off as i64),
    };
    kani::cover!(which % 3 == 0 && off > (1u64 << 63), "huge absolute target");
    kani::cover!(which % 3 == 2 && n % SPEC_CTS > 0 && n % SPEC_CTS < SPEC_TAG, "End on a stream cut inside a tag");
    kani::cover!(which % 3 == 1 && (off as i64) == i64::MAX, "Current(i64::MAX)");
    kani::cover!(n < SPEC_TAG, "stream shorter than a tag");
    let r = l.seek(sf);
    core::mem::forget(r);
    core::mem::forget(l);
}

// ------------------------------------------------------------------------------------------
// H-ENC-W-*: one real EncryptionLayerWriter::write / finalize from a symbolic writer state
// (C01 chunk roll-over, C06 one GCM message per chunk + tag placement + counter, C07 every byte
//  goes through the cipher) — scaled build: chunk 4 bytes, cipher buffer 3 bytes
// ------------------------------------------------------------------------------------------
fn mk_writer(off: u64, ctr: u32, key: Key, prefix: [u8; NONCE_SIZE], pending: [u8; 4]) -> EncryptionLayerWriter<'static, Rec> {
    // cipher state of a chunk in which `off` bytes were already encrypted
    let cipher = crate::crypto::aesgcm::verif_aesgcm::model_build_at(&key, &build_nonce(prefix, ctr), off, pending);
    let rec = Rec::new();
    let inner: InnerWriterType<'static, Rec> = Box::new(rec);
    // through the real constructor (a field added to the writer is initialised by the code under
    // check), then moved to the symbolic mid-stream state
    let cfg = EncryptionConfig { ecc_keys: Vec::new(), key, nonce: prefix };
    let mut w = match EncryptionLayerWriter::new(inner, &cfg) {
        Ok(w) => w,
        Err(e) => {
            core::mem::forget(e);
            kani::assume(false);
            unreachable!()
        }
    };
    core::mem::forget(cfg);
    let fresh = core::mem::replace(&mut w.cipher, cipher);
    core::mem::forget(fresh);
    w.current_chunk_offset = off;
    w.current_ctr = ctr;
    w
}
/// the writer's sink is behind a trait object: observe it through ghost statics
static mut W_SINK: *const Rec = core::ptr::null();

//@ props: C01 C06 C07 C13 C14
//@ scaled: yes
//@ functions: <layers::encrypt::EncryptionLayerWriter<W> as std::io::Write>::write; <EncryptionLayerWriter<W> as Write>::flush; build_nonce; AesGcm256::encrypt over model primitives
//@ bounds: SCALED build (chunk 4, cipher buffer 3); CONCRETE chunk offset 0 and buffer length 0 (one of 11 enumerated size pairs); symbolic data bytes, key, nonce prefix, chunk counter < 2^32-1, pending GHASH bytes
//@ stubs: AesGcm256::new -> same struct via model constructors; std::io::copy -> single read + write_all; alloc::fmt::format; From<mla::Error> for io::Error; model aes/ctr/ghash
//@ outside: other (offset, length) pairs at the scaled constants; production buffer sizes (same code, constants differ)
//@ replay: verif_replay_encrypt::enc_writer off=0 blen=0 ctr:u32
#[kani::proof]
#[kani::unwind(8)]
#[kani::stub(alloc::fmt::format, nofmt)]
#[kani::stub(<std::io::Error as std::convert::From<crate::errors::Error>>::from, cheap_from)]
#[kani::stub(crate::crypto::aesgcm::AesGcm256::new, stub_gcm_new)]
#[kani::stub(std::io::copy, copy_small_enc)]
fn h_enc_w_0_0() {
    writer_step_body(0, 0);
}

//@ props: C01 C06 C07 C13 C14
//@ scaled: yes
//@ functions: <layers::encrypt::EncryptionLayerWriter<W> as std::io::Write>::write; <EncryptionLayerWriter<W> as Write>::flush; build_nonce; AesGcm256::encrypt over model primitives
//@ bounds: SCALED build (chunk 4, cipher buffer 3); CONCRETE chunk offset 0 and buffer length 1 (one of 11 enumerated size pairs); symbolic data bytes, key, nonce prefix, chunk counter < 2^32-1, pending GHASH bytes
//@ stubs: AesGcm256::new -> same struct via model constructors; std::io::copy -> single read + write_all; alloc::fmt::format; From<mla::Error> for io::Error; model aes/ctr/ghash
//@ outside: other (offset, length) pairs at the scaled constants; production buffer sizes (same code, constants differ)
//@ replay: verif_replay_encrypt::enc_writer off=0 blen=1 ctr:u32
#[kani::proof]
#[kani::unwind(8)]
#[kani::stub(alloc::fmt::format, nofmt)]
#[kani::stub(<std::io::Error as std::convert::From<crate::errors::Error>>::from, cheap_from)]
#[kani::stub(crate::crypto::aesgcm::AesGcm256::new, stub_gcm_new)]
#[kani::stub(std::io::copy, copy_small_enc)]
fn h_enc_w_0_1() {
    writer_step_body(0, 1);
}

//@ props: C01 C06 C07 C13 C14
//@ scaled: yes
//@ functions: <layers::encrypt::EncryptionLayerWriter<W> as std::io::Write>::write; <EncryptionLayerWriter<W> as Write>::flush; build_nonce; AesGcm256::encrypt over model primitives
//@ bounds: SCALED build (chunk 4, cipher buffer 3); CONCRETE chunk offset 0 and buffer length 3 (one of 11 enumerated size pairs); symbolic data bytes, key, nonce prefix, chunk counter < 2^32-1, pending GHASH bytes
//@ stubs: AesGcm256::new -> same struct via model constructors; std::io::copy -> single read + write_all; alloc::fmt::format; From<mla::Error> for io::Error; model aes/ctr/ghash
//@ outside: other (offset, length) pairs at the scaled constants; production buffer sizes (same code, constants differ)
//@ replay: verif_replay_encrypt::enc_writer off=0 blen=3 ctr:u32
#[kani::proof]
#[kani::unwind(8)]
#[kani::stub(alloc::fmt::format, nofmt)]
#[kani::stub(<std::io::Error as std::convert::From<crate::errors::Error>>::from, cheap_from)]
#[kani::stub(crate::crypto::aesgcm::AesGcm256::new, stub_gcm_new)]
#[kani::stub(std::io::copy, copy_small_enc)]
fn h_enc_w_0_3() {
    writer_step_body(0, 3);
}

//@ props: C01 C06 C07 C13 C14
//@ scaled: yes
//@ functions: <layers::encrypt::EncryptionLayerWriter<W> as std::io::Write>::write; <EncryptionLayerWriter<W> as Write>::flush; build_nonce; AesGcm256::encrypt over model primitives
//@ bounds: SCALED build (chunk 4, cipher buffer 3); CONCRETE chunk offset 0 and buffer length 6 (one of 11 enumerated size pairs); symbolic data bytes, key, nonce prefix, chunk counter < 2^32-1, pending GHASH bytes
//@ stubs: AesGcm256::new -> same struct via model constructors; std::io::copy -> single read + write_all; alloc::fmt::format; From<mla::Error> for io::Error; model aes/ctr/ghash
//@ outside: other (offset, length) pairs at the scaled constants; production buffer sizes (same code, constants differ)
//@ replay: verif_replay_encrypt::enc_writer off=0 blen=6 ctr:u32
#[kani::proof]
#[kani::unwind(8)]
#[kani::stub(alloc::fmt::format, nofmt)]
#[kani::stub(<std::io::Error as std::convert::From<crate::errors::Error>>::from, cheap_from)]
#[kani::stub(crate::crypto::aesgcm::AesGcm256::new, stub_gcm_new)]
#[kani::stub(std::io::copy, copy_small_enc)]
fn h_enc_w_0_6() {
    writer_step_body(0, 6);
}

//@ props: C01 C06 C07 C13 C14
//@ scaled: yes
//@ functions: <layers::encrypt::EncryptionLayerWriter<W> as std::io::Write>::write; <EncryptionLayerWriter<W> as Write>::flush; build_nonce; AesGcm256::encrypt over model primitives
//@ bounds: SCALED build (chunk 4, cipher buffer 3); CONCRETE chunk offset 2 and buffer length 1 (one of 11 enumerated size pairs); symbolic data bytes, key, nonce prefix, chunk counter < 2^32-1, pending GHASH bytes
//@ stubs: AesGcm256::new -> same struct via model constructors; std::io::copy -> single read + write_all; alloc::fmt::format; From<mla::Error> for io::Error; model aes/ctr/ghash
//@ outside: other (offset, length) pairs at the scaled constants; production buffer sizes (same code, constants differ)
//@ replay: verif_replay_encrypt::enc_writer off=2 blen=1 ctr:u32
#[kani::proof]
#[kani::unwind(8)]
#[kani::stub(alloc::fmt::format, nofmt)]
#[kani::stub(<std::io::Error as std::convert::From<crate::errors::Error>>::from, cheap_from)]
#[kani::stub(crate::crypto::aesgcm::AesGcm256::new, stub_gcm_new)]
#[kani::stub(std::io::copy, copy_small_enc)]
fn h_enc_w_2_1() {
    writer_step_body(2, 1);
}

//@ props: C01 C06 C07 C13 C14
//@ scaled: yes
//@ functions: <layers::encrypt::EncryptionLayerWriter<W> as std::io::Write>::write; <EncryptionLayerWriter<W> as Write>::flush; build_nonce; AesGcm256::encrypt over model primitives
//@ bounds: SCALED build (chunk 4, cipher buffer 3); CONCRETE chunk offset 2 and buffer length 6 (one of 11 enumerated size pairs); symbolic data bytes, key, nonce prefix, chunk counter < 2^32-1, pending GHASH bytes
//@ stubs: AesGcm256::new -> same struct via model constructors; std::io::copy -> single read + write_all; alloc::fmt::format; From<mla::Error> for io::Error; model aes/ctr/ghash
//@ outside: other (offset, length) pairs at the scaled constants; production buffer sizes (same code, constants differ)
//@ replay: verif_replay_encrypt::enc_writer off=2 blen=6 ctr:u32
#[kani::proof]
#[kani::unwind(8)]
#[kani::stub(alloc::fmt::format, nofmt)]
#[kani::stub(<std::io::Error as std::convert::From<crate::errors::Error>>::from, cheap_from)]
#[kani::stub(crate::crypto::aesgcm::AesGcm256::new, stub_gcm_new)]
#[kani::stub(std::io::copy, copy_small_enc)]
fn h_enc_w_2_6() {
    writer_step_body(2, 6);
}

//@ props: C01 C06 C07 C13 C14
//@ scaled: yes
//@ functions: <layers::encrypt::EncryptionLayerWriter<W> as std::io::Write>::write; <EncryptionLayerWriter<W> as Write>::flush; build_nonce; AesGcm256::encrypt over model primitives
//@ bounds: SCALED build (chunk 4, cipher buffer 3); CONCRETE chunk offset 3 and buffer length 1 (one of 11 enumerated size pairs); symbolic data bytes, key, nonce prefix, chunk counter < 2^32-1, pending GHASH bytes
//@ stubs: AesGcm256::new -> same struct via model constructors; std::io::copy -> single read + write_all; alloc::fmt::format; From<mla::Error> for io::Error; model aes/ctr/ghash
//@ outside: other (offset, length) pairs at the scaled constants; production buffer sizes (same code, constants differ)
//@ replay: verif_replay_encrypt::enc_writer off=3 blen=1 ctr:u32
#[kani::proof]
#[kani::unwind(8)]
#[kani::stub(alloc::fmt::format, nofmt)]
#[kani::stub(<std::io::Error as std::convert::From<crate::errors::Error>>::from, cheap_from)]
#[kani::stub(crate::crypto::aesgcm::AesGcm256::new, stub_gcm_new)]
#[kani::stub(std::io::copy, copy_small_enc)]
fn h_enc_w_3_1() {
    writer_step_body(3, 1);
}

//@ props: C01 C06 C07 C13 C14
//@ scaled: yes
//@ functions: <layers::encrypt::EncryptionLayerWriter<W> as std::io::Write>::write; <EncryptionLayerWriter<W> as Write>::flush; build_nonce; AesGcm256::encrypt over model primitives
//@ bounds: SCALED build (chunk 4, cipher buffer 3); CONCRETE chunk offset 3 and buffer length 5 (one of 11 enumerated size pairs); symbolic data bytes, key, nonce prefix, chunk counter < 2^32-1, pending GHASH bytes
//@ stubs: AesGcm256::new -> same struct via model constructors; std::io::copy -> single read + write_all; alloc::fmt::format; From<mla::Error> for io::Error; model aes/ctr/ghash
//@ outside: other (offset, length) pairs at the scaled constants; production buffer sizes (same code, constants differ)
//@ replay: verif_replay_encrypt::enc_writer off=3 blen=5 ctr:u32
#[kani::proof]
#[kani::unwind(8)]
#[kani::stub(alloc::fmt::format, nofmt)]
#[kani::stub(<std::io::Error as std::convert::From<crate::errors::Error>>::from, cheap_from)]
#[kani::stub(crate::crypto::aesgcm::AesGcm256::new, stub_gcm_new)]
#[kani::stub(std::io::copy, copy_small_enc)]
fn h_enc_w_3_5() {
    writer_step_body(3, 5);
}

//@ props: C01 C06 C07 C13
//@ scaled: yes
//@ functions: <layers::encrypt::EncryptionLayerWriter<W> as std::io::Write>::write (roll-over arm); EncryptionLayerWriter::renew_cipher; AesGcm256::into_tag; build_nonce; AesGcm256::encrypt over model primitives
//@ bounds: SCALED build (chunk 4, cipher buffer 3); CONCRETE chunk offset 4 (chunk full: roll-over due) and buffer length 0 (one of 11 enumerated size pairs); symbolic data bytes, key, nonce prefix, chunk counter < 2^32-1, pending GHASH bytes
//@ stubs: AesGcm256::new -> same struct via model constructors; std::io::copy -> single read + write_all; alloc::fmt::format; From<mla::Error> for io::Error; model aes/ctr/ghash
//@ outside: other (offset, length) pairs at the scaled constants; production buffer sizes (same code, constants differ)
//@ replay: verif_replay_encrypt::enc_writer off=4 blen=0 ctr:u32
#[kani::proof]
#[kani::unwind(18)]
#[kani::stub(alloc::fmt::format, nofmt)]
#[kani::stub(<std::io::Error as std::convert::From<crate::errors::Error>>::from, cheap_from)]
#[kani::stub(crate::crypto::aesgcm::AesGcm256::new, stub_gcm_new)]
#[kani::stub(std::io::copy, copy_small_enc)]
fn h_enc_w_4_0() {
    writer_step_body(4, 0);
}

//@ props: C01 C06 C07 C13
//@ scaled: yes
//@ functions: <layers::encrypt::EncryptionLayerWriter<W> as std::io::Write>::write (roll-over arm); EncryptionLayerWriter::renew_cipher; AesGcm256::into_tag; build_nonce; AesGcm256::encrypt over model primitives
//@ bounds: SCALED build (chunk 4, cipher buffer 3); CONCRETE chunk offset 4 (chunk full: roll-over due) and buffer length 1 (one of 11 enumerated size pairs); symbolic data bytes, key, nonce prefix, chunk counter < 2^32-1, pending GHASH bytes
//@ stubs: AesGcm256::new -> same struct via model constructors; std::io::copy -> single read + write_all; alloc::fmt::format; From<mla::Error> for io::Error; model aes/ctr/ghash
//@ outside: other (offset, length) pairs at the scaled constants; production buffer sizes (same code, constants differ)
//@ replay: verif_replay_encrypt::enc_writer off=4 blen=1 ctr:u32
#[kani::proof]
#[kani::unwind(18)]
#[kani::stub(alloc::fmt::format, nofmt)]
#[kani::stub(<std::io::Error as std::convert::From<crate::errors::Error>>::from, cheap_from)]
#[kani::stub(crate::crypto::aesgcm::AesGcm256::new, stub_gcm_new)]
#[kani::stub(std::io::copy, copy_small_enc)]
fn h_enc_w_4_1() {
    writer_step_body(4, 1);
}

//@ props: C01 C06 C07 C13
//@ scaled: yes
//@ functions: <layers::encrypt::EncryptionLayerWriter<W> as std::io::Write>::write (roll-over arm); EncryptionLayerWriter::renew_cipher; AesGcm256::into_tag; build_nonce; AesGcm256::encrypt over model primitives
//@ bounds: SCALED build (chunk 4, cipher buffer 3); CONCRETE chunk offset 4 (chunk full: roll-over due) and buffer length 6 (one of 11 enumerated size pairs); symbolic data bytes, key, nonce prefix, chunk counter < 2^32-1, pending GHASH bytes
//@ stubs: AesGcm256::new -> same struct via model constructors; std::io::copy -> single read + write_all; alloc::fmt::format; From<mla::Error> for io::Error; model aes/ctr/ghash
//@ outside: other (offset, length) pairs at the scaled constants; production buffer sizes (same code, constants differ)
//@ replay: verif_replay_encrypt::enc_writer off=4 blen=6 ctr:u32
#[kani::proof]
#[kani::unwind(18)]
#[kani::stub(alloc::fmt::format, nofmt)]
#[kani::stub(<std::io::Error as std::convert::From<crate::errors::Error>>::from, cheap_from)]
#[kani::stub(crate::crypto::aesgcm::AesGcm256::new, stub_gcm_new)]
#[kani::stub(std::io::copy, copy_small_enc)]
fn h_enc_w_4_6() {
    writer_step_body(4, 6);
}

//@ props: C01 C06 C07 C13
//@ scaled: yes
//@ tier: thorough
//@ functions: <layers::encrypt::EncryptionLayerWriter<W> as std::io::Write>::write; build_nonce; AesGcm256::encrypt over model primitives
//@ bounds: SCALED build (chunk 4, cipher buffer 3); CONCRETE chunk offset 0 and buffer length 2 (thorough tier: ALL 35 pairs offset 0..=4 x length 0..=6 are enumerated); symbolic data bytes, key, nonce prefix, chunk counter < 2^32-1, pending GHASH bytes
//@ stubs: AesGcm256::new -> same struct via model constructors; std::io::copy -> single read + write_all; alloc::fmt::format; From<mla::Error> for io::Error; model aes/ctr/ghash
//@ outside: production buffer sizes (same code, constants differ)
//@ replay: verif_replay_encrypt::enc_writer off=0 blen=2 ctr:u32
#[kani::proof]
#[kani::unwind(8)]
#[kani::stub(alloc::fmt::format, nofmt)]
#[kani::stub(<std::io::Error as std::convert::From<crate::errors::Error>>::from, cheap_from)]
#[kani::stub(crate::crypto::aesgcm::AesGcm256::new, stub_gcm_new)]
#[kani::stub(std::io::copy, copy_small_enc)]
fn h_enc_w_0_2() {
    writer_step_body(0, 2);
}

//@ props: C01 C06 C07 C13
//@ scaled: yes
//@ tier: thorough
//@ functions: <layers::encrypt::EncryptionLayerWriter<W> as std::io::Write>::write; build_nonce; AesGcm256::encrypt over model primitives
//@ bounds: SCALED build (chunk 4, cipher buffer 3); CONCRETE chunk offset 0 and buffer length 4 (thorough tier: ALL 35 pairs offset 0..=4 x length 0..=6 are enumerated); symbolic data bytes, key, nonce prefix, chunk counter < 2^32-1, pending GHASH bytes
//@ stubs: AesGcm256::new -> same struct via model constructors; std::io::copy -> single read + write_all; alloc::fmt::format; From<mla::Error> for io::Error; model aes/ctr/ghash
//@ outside: production buffer sizes (same code, constants differ)
//@ replay: verif_replay_encrypt::enc_writer off=0 blen=4 ctr:u32
#[kani::proof]
#[kani::unwind(8)]
#[kani::stub(alloc::fmt::format, nofmt)]
#[kani::stub(<std::io::Error as std::convert::From<crate::errors::Error>>::from, cheap_from)]
#[kani::stub(crate::crypto::aesgcm::AesGcm256::new, stub_gcm_new)]
#[kani::stub(std::io::copy, copy_small_enc)]
fn h_enc_w_0_4() {
    writer_step_body(0, 4);
}

//@ props: C01 C06 C07 C13
//@ scaled: yes
//@ tier: thorough
//@ functions: <layers::encrypt::EncryptionLayerWriter<W> as std::io::Write>::write; build_nonce; AesGcm256::encrypt over model primitives
//@ bounds: SCALED build (chunk 4, cipher buffer 3); CONCRETE chunk offset 0 and buffer length 5 (thorough tier: ALL 35 pairs offset 0..=4 x length 0..=6 are enumerated); symbolic data bytes, key, nonce prefix, chunk counter < 2^32-1, pending GHASH bytes
//@ stubs: AesGcm256::new -> same struct via model constructors; std::io::copy -> single read + write_all; alloc::fmt::format; From<mla::Error> for io::Error; model aes/ctr/ghash
//@ outside: production buffer sizes (same code, constants differ)
//@ replay: verif_replay_encrypt::enc_writer off=0 blen=5 ctr:u32
#[kani::proof]
#[kani::unwind(8)]
#[kani::stub(alloc::fmt::format, nofmt)]
#[kani::stub(<std::io::Error as std::convert::From<crate::errors::Error>>::from, cheap_from)]
#[kani::stub(crate::crypto::aesgcm::AesGcm256::new, stub_gcm_new)]
#[kani::stub(std::io::copy, copy_small_enc)]
fn h_enc_w_0_5() {
    writer_step_body(0, 5);
}

//@ props: C01 C06 C07 C13
//@ scaled: yes
//@ tier: thorough
//@ functions: <layers::encrypt::EncryptionLayerWriter<W> as std::io::Write>::write; build_nonce; AesGcm256::encrypt over model primitives
//@ bounds: SCALED build (chunk 4, cipher buffer 3); CONCRETE chunk offset 1 and buffer length 0 (thorough tier: ALL 35 pairs offset 0..=4 x length 0..=6 are enumerated); symbolic data bytes, key, nonce prefix, chunk counter < 2^32-1, pending GHASH bytes
//@ stubs: AesGcm256::new -> same struct via model constructors; std::io::copy -> single read + write_all; alloc::fmt::format; From<mla::Error> for io::Error; model aes/ctr/ghash
//@ outside: production buffer sizes (same code, constants differ)
//@ replay: verif_replay_encrypt::enc_writer off=1 blen=0 ctr:u32
#[kani::proof]
#[kani::unwind(8)]
#[kani::stub(alloc::fmt::format, nofmt)]
#[kani::stub(<std::io::Error as std::convert::From<crate::errors::Error>>::from, cheap_from)]
#[kani::stub(crate::crypto::aesgcm::AesGcm256::new, stub_gcm_new)]
#[kani::stub(std::io::copy, copy_small_enc)]
fn h_enc_w_1_0() {
    writer_step_body(1, 0);
}

//@ props: C01 C06 C07 C13
//@ scaled: yes
//@ tier: thorough
//@ functions: <layers::encrypt::EncryptionLayerWriter<W> as std::io::Write>::write; build_nonce; AesGcm256::encrypt over model primitives
//@ bounds: SCALED build (chunk 4, cipher buffer 3); CONCRETE chunk offset 1 and buffer length 1 (thorough tier: ALL 35 pairs offset 0..=4 x length 0..=6 are enumerated); symbolic data bytes, key, nonce prefix, chunk counter < 2^32-1, pending GHASH bytes
//@ stubs: AesGcm256::new -> same struct via model constructors; std::io::copy -> single read + write_all; alloc::fmt::format; From<mla::Error> for io::Error; model aes/ctr/ghash
//@ outside: production buffer sizes (same code, constants differ)
//@ replay: verif_replay_encrypt::enc_writer off=1 blen=1 ctr:u32
#[kani::proof]
#[kani::unwind(8)]
#[kani::stub(alloc::fmt::format, nofmt)]
#[kani::stub(<std::io::Error as std::convert::From<crate::errors::Error>>::from, cheap_from)]
#[kani::stub(crate::crypto::aesgcm::AesGcm256::new, stub_gcm_new)]
#[kani::stub(std::io::copy, copy_small_enc)]
fn h_enc_w_1_1() {
    writer_step_body(1, 1);
}

//@ props: C01 C06 C07 C13
//@ scaled: yes
//@ tier: thorough
//@ functions: <layers::encrypt::EncryptionLayerWriter<W> as std::io::Write>::write; build_nonce; AesGcm256::encrypt over model primitives
//@ bounds: SCALED build (chunk 4, cipher buffer 3); CONCRETE chunk offset 1 and buffer length 2 (thorough tier: ALL 35 pairs offset 0..=4 x length 0..=6 are enumerated); symbolic data bytes, key, nonce prefix, chunk counter < 2^32-1, pending GHASH bytes
//@ stubs: AesGcm256::new -> same struct via model constructors; std::io::copy -> single read + write_all; alloc::fmt::format; From<mla::Error> for io::Error; model aes/ctr/ghash
//@ outside: production buffer sizes (same code, constants differ)
//@ replay: verif_replay_encrypt::enc_writer off=1 blen=2 ctr:u32
#[kani::proof]
#[kani::unwind(8)]
#[kani::stub(alloc::fmt::format, nofmt)]
#[kani::stub(<std::io::Error as std::convert::From<crate::errors::Error>>::from, cheap_from)]
#[kani::stub(crate::crypto::aesgcm::AesGcm256::new, stub_gcm_new)]
#[kani::stub(std::io::copy, copy_small_enc)]
fn h_enc_w_1_2() {
    writer_step_body(1, 2);
}

//@ props: C01 C06 C07 C13
//@ scaled: yes
//@ tier: thorough
//@ functions: <layers::encrypt::EncryptionLayerWriter<W> as std::io::Write>::write; build_nonce; AesGcm256::encrypt over model primitives
//@ bounds: SCALED build (chunk 4, cipher buffer 3); CONCRETE chunk offset 1 and buffer length 3 (thorough tier: ALL 35 pairs offset 0..=4 x length 0..=6 are enumerated); symbolic data bytes, key, nonce prefix, chunk counter < 2^32-1, pending GHASH bytes
//@ stubs: AesGcm256::new -> same struct via model constructors; std::io::copy -> single read + write_all; alloc::fmt::format; From<mla::Error> for io::Error; model aes/ctr/ghash
//@ outside: production buffer sizes (same code, constants differ)
//@ replay: verif_replay_encrypt::enc_writer off=1 blen=3 ctr:u32
#[kani::proof]
#[kani::unwind(8)]
#[kani::stub(alloc::fmt::format, nofmt)]
#[kani::stub(<std::io::Error as std::convert::From<crate::errors::Error>>::from, cheap_from)]
#[kani::stub(crate::crypto::aesgcm::AesGcm256::new, stub_gcm_new)]
#[kani::stub(std::io::copy, copy_small_enc)]
fn h_enc_w_1_3() {
    writer_step_body(1, 3);
}

//@ props: C01 C06 C07 C13
//@ scaled: yes
//@ tier: thorough
//@ functions: <layers::encrypt::EncryptionLayerWriter<W> as std::io::Write>::write; build_nonce; AesGcm256::encrypt over model primitives
//@ bounds: SCALED build (chunk 4, cipher buffer 3); CONCRETE chunk offset 1 and buffer length 4 (thorough tier: ALL 35 pairs offset 0..=4 x length 0..=6 are enumerated); symbolic data bytes, key, nonce prefix, chunk counter < 2^32-1, pending GHASH bytes
//@ stubs: AesGcm256::new -> same struct via model constructors; std::io::copy -> single read + write_all; alloc::fmt::format; From<mla::Error> for io::Error; model aes/ctr/ghash
//@ outside: production buffer sizes (same code, constants differ)
//@ replay: verif_replay_encrypt::enc_writer off=1 blen=4 ctr:u32
#[kani::proof]
#[kani::unwind(8)]
#[kani::stub(alloc::fmt::format, nofmt)]
#[kani::stub(<std::io::Error as std::convert::From<crate::errors::Error>>::from, cheap_from)]
#[kani::stub(crate::crypto::aesgcm::AesGcm256::new, stub_gcm_new)]
#[kani::stub(std::io::copy, copy_small_enc)]
fn h_enc_w_1_4() {
    writer_step_body(1, 4);
}

//@ props: C01 C06 C07 C13
//@ scaled: yes
//@ tier: thorough
//@ functions: <layers::encrypt::EncryptionLayerWriter<W> as std::io::Write>::write; build_nonce; AesGcm256::encrypt over model primitives
//@ bounds: SCALED build (chunk 4, cipher buffer 3); CONCRETE chunk offset 1 and buffer length 5 (thorough tier: ALL 35 pairs offset 0..=4 x length 0..=6 are enumerated); symbolic data bytes, key, nonce prefix, chunk counter < 2^32-1, pending GHASH bytes
//@ stubs: AesGcm256::new -> same struct via model constructors; std::io::copy -> single read + write_all; alloc::fmt::format; From<mla::Error> for io::Error; model aes/ctr/ghash
//@ outside: production buffer sizes (same code, constants differ)
//@ replay: verif_replay_encrypt::enc_writer off=1 blen=5 ctr:u32
#[kani::proof]
#[kani::unwind(8)]
#[kani::stub(alloc::fmt::format, nofmt)]
#[kani::stub(<std::io::Error as std::convert::From<crate::errors::Error>>::from, cheap_from)]
#[kani::stub(crate::crypto::aesgcm::AesGcm256::new, stub_gcm_new)]
#[kani::stub(std::io::copy, copy_small_enc)]
fn h_enc_w_1_5() {
    writer_step_body(1, 5);
}

//@ props: C01 C06 C07 C13
//@ scaled: yes
//@ tier: thorough
//@ functions: <layers::encrypt::EncryptionLayerWriter<W> as std::io::Write>::write; build_nonce; AesGcm256::encrypt over model primitives
//@ bounds: SCALED build (chunk 4, cipher buffer 3); CONCRETE chunk offset 1 and buffer length 6 (thorough tier: ALL 35 pairs offset 0..=4 x length 0..=6 are enumerated); symbolic data bytes, key, nonce prefix, chunk counter < 2^32-1, pending GHASH bytes
//@ stubs: AesGcm256::new -> same struct via model constructors; std::io::copy -> single read + write_all; alloc::fmt::format; From<mla::Error> for io::Error; model aes/ctr/ghash
//@ outside: production buffer sizes (same code, constants differ)
//@ replay: verif_replay_encrypt::enc_writer off=1 blen=6 ctr:u32
#[kani::proof]
#[kani::unwind(8)]
#[kani::stub(alloc::fmt::format, nofmt)]
#[kani::stub(<std::io::Error as std::convert::From<crate::errors::Error>>::from, cheap_from)]
#[kani::stub(crate::crypto::aesgcm::AesGcm256::new, stub_gcm_new)]
#[kani::stub(std::io::copy, copy_small_enc)]
fn h_enc_w_1_6() {
    writer_step_body(1, 6);
}

//@ props: C01 C06 C07 C13
//@ scaled: yes
//@ tier: thorough
//@ functions: <layers::encrypt::EncryptionLayerWriter<W> as std::io::Write>::write; build_nonce; AesGcm256::encrypt over model primitives
//@ bounds: SCALED build (chunk 4, cipher buffer 3); CONCRETE chunk offset 2 and buffer length 0 (thorough tier: ALL 35 pairs offset 0..=4 x length 0..=6 are enumerated); symbolic data bytes, key, nonce prefix, chunk counter < 2^32-1, pending GHASH bytes
//@ stubs: AesGcm256::new -> same struct via model constructors; std::io::copy -> single read + write_all; alloc::fmt::format; From<mla::Error> for io::Error; model aes/ctr/ghash
//@ outside: production buffer sizes (same code, constants differ)
//@ replay: verif_replay_encrypt::enc_writer off=2 blen=0 ctr:u32
#[kani::proof]
#[kani::unwind(8)]
#[kani::stub(alloc::fmt::format, nofmt)]
#[kani::stub(<std::io::Error as std::convert::From<crate::errors::Error>>::from, cheap_from)]
#[kani::stub(crate::crypto::aesgcm::AesGcm256::new, stub_gcm_new)]
#[kani::stub(std::io::copy, copy_small_enc)]
fn h_enc_w_2_0() {
    writer_step_body(2, 0);
}

//@ props: C01 C06 C07 C13
//@ scaled: yes
//@ tier: thorough
//@ functions: <layers::encrypt::EncryptionLayerWriter<W> as std::io::Write>::write; build_nonce; AesGcm256::encrypt over model primitives
//@ bounds: SCALED build (chunk 4, cipher buffer 3); CONCRETE chunk offset 2 and buffer length 2 (thorough tier: ALL 35 pairs offset 0..=4 x length 0..=6 are enumerated); symbolic data bytes, key, nonce prefix, chunk counter < 2^32-1, pending GHASH bytes
//@ stubs: AesGcm256::new -> same struct via model constructors; std::io::copy -> single read + write_all; alloc::fmt::format; From<mla::Error> for io::Error; model aes/ctr/ghash
//@ outside: production buffer sizes (same code, constants differ)
//@ replay: verif_replay_encrypt::enc_writer off=2 blen=2 ctr:u32
#[kani::proof]
#[kani::unwind(8)]
#[kani::stub(alloc::fmt::format, nofmt)]
#[kani::stub(<std::io::Error as std::convert::From<crate::errors::Error>>::from, cheap_from)]
#[kani::stub(crate::crypto::aesgcm::AesGcm256::new, stub_gcm_new)]
#[kani::stub(std::io::copy, copy_small_enc)]
fn h_enc_w_2_2() {
    writer_step_body(2, 2);
}

//@ props: C01 C06 C07 C13
//@ scaled: yes
//@ tier: thorough
//@ functions: <layers::encrypt::EncryptionLayerWriter<W> as std::io::Write>::write; build_nonce; AesGcm256::encrypt over model primitives
//@ bounds: SCALED build (chunk 4, cipher buffer 3); CONCRETE chunk offset 2 and buffer length 3 (thorough tier: ALL 35 pairs offset 0..=4 x length 0..=6 are enumerated); symbolic data bytes, key, nonce prefix, chunk counter < 2^32-1, pending GHASH bytes
//@ stubs: AesGcm256::new -> same struct via model constructors; std::io::copy -> single read + write_all; alloc::fmt::format; From<mla::Error> for io::Error; model aes/ctr/ghash
//@ outside: production buffer sizes (same code, constants differ)
//@ replay: verif_replay_encrypt::enc_writer off=2 blen=3 ctr:u32
#[kani::proof]
#[kani::unwind(8)]
#[kani::stub(alloc::fmt::format, nofmt)]
#[kani::stub(<std::io::Error as std::convert::From<crate::errors::Error>>::from, cheap_from)]
#[kani::stub(crate::crypto::aesgcm::AesGcm256::new, stub_gcm_new)]
#[kani::stub(std::io::copy, copy_small_enc)]
fn h_enc_w_2_3() {
    writer_step_body(2, 3);
}

//@ props: C01 C06 C07 C13
//@ scaled: yes
//@ tier: thorough
//@ functions: <layers::encrypt::EncryptionLayerWriter<W> as std::io::Write>::write; build_nonce; AesGcm256::encrypt over model primitives
//@ bounds: SCALED build (chunk 4, cipher buffer 3); CONCRETE chunk offset 2 and buffer length 4 (thorough tier: ALL 35 pairs offset 0..=4 x length 0..=6 are enumerated); symbolic data bytes, key, nonce prefix, chunk counter < 2^32-1, pending GHASH bytes
//@ stubs: AesGcm256::new -> same struct via model constructors; std::io::copy -> single read + write_all; alloc::fmt::format; From<mla::Error> for io::Error; model aes/ctr/ghash
//@ outside: production buffer sizes (same code, constants differ)
//@ replay: verif_replay_encrypt::enc_writer off=2 blen=4 ctr:u32
#[kani::proof]
#[kani::unwind(8)]
#[kani::stub(alloc::fmt::format, nofmt)]
#[kani::stub(<std::io::Error as std::convert::From<crate::errors::Error>>::from, cheap_from)]
#[kani::stub(crate::crypto::aesgcm::AesGcm256::new, stub_gcm_new)]
#[kani::stub(std::io::copy, copy_small_enc)]
fn h_enc_w_2_4() {
    writer_step_body(2, 4);
}

//@ props: C01 C06 C07 C13
//@ scaled: yes
//@ tier: thorough
//@ functions: <layers::encrypt::EncryptionLayerWriter<W> as std::io::Write>::write; build_nonce; AesGcm256::encrypt over model primitives
//@ bounds: SCALED build (chunk 4, cipher buffer 3); CONCRETE chunk offset 2 and buffer length 5 (thorough tier: ALL 35 pairs offset 0..=4 x length 0..=6 are enumerated); symbolic data bytes, key, nonce prefix, chunk counter < 2^32-1, pending GHASH bytes
//@ stubs: AesGcm256::new -> same struct via model constructors; std::io::copy -> single read + write_all; alloc::fmt::format; From<mla::Error> for io::Error; model aes/ctr/ghash
//@ outside: production buffer sizes (same code, constants differ)
//@ replay: verif_replay_encrypt::enc_writer off=2 blen=5 ctr:u32
#[kani::proof]
#[kani::unwind(8)]
#[kani::stub(alloc::fmt::format, nofmt)]
#[kani::stub(<std::io::Error as std::convert::From<crate::errors::Error>>::from, cheap_from)]
#[kani::stub(crate::crypto::aesgcm::AesGcm256::new, stub_gcm_new)]
#[kani::stub(std::io::copy, copy_small_enc)]
fn h_enc_w_2_5() {
    writer_step_body(2, 5);
}

//@ props: C01 C06 C07 C13
//@ scaled: yes
//@ tier: thorough
//@ functions: <layers::encrypt::EncryptionLayerWriter<W> as std::io::Write>::write; build_nonce; AesGcm256::encrypt over model primitives
//@ bounds: SCALED build (chunk 4, cipher buffer 3); CONCRETE chunk offset 3 and buffer length 0 (thorough tier: ALL 35 pairs offset 0..=4 x length 0..=6 are enumerated); symbolic data bytes, key, nonce prefix, chunk counter < 2^32-1, pending GHASH bytes
//@ stubs: AesGcm256::new -> same struct via model constructors; std::io::copy -> single read + write_all; alloc::fmt::format; From<mla::Error> for io::Error; model aes/ctr/ghash
//@ outside: production buffer sizes (same code, constants differ)
//@ replay: verif_replay_encrypt::enc_writer off=3 blen=0 ctr:u32
#[kani::proof]
#[kani::unwind(8)]
#[kani::stub(alloc::fmt::format, nofmt)]
#[kani::stub(<std::io::Error as std::convert::From<crate::errors::Error>>::from, cheap_from)]
#[kani::stub(crate::crypto::aesgcm::AesGcm256::new, stub_gcm_new)]
#[kani::stub(std::io::copy, copy_small_enc)]
fn h_enc_w_3_0() {
    writer_step_body(3, 0);
}

//@ props: C01 C06 C07 C13
//@ scaled: yes
//@ tier: thorough
//@ functions: <layers::encrypt::EncryptionLayerWriter<W> as std::io::Write>::write; build_nonce; AesGcm256::encrypt over model primitives
//@ bounds: SCALED build (chunk 4, cipher buffer 3); CONCRETE chunk offset 3 and buffer length 2 (thorough tier: ALL 35 pairs offset 0..=4 x length 0..=6 are enumerated); symbolic data bytes, key, nonce prefix, chunk counter < 2^32-1, pending GHASH bytes
//@ stubs: AesGcm256::new -> same struct via model constructors; std::io::copy -> single read + write_all; alloc::fmt::format; From<mla::Error> for io::Error; model aes/ctr/ghash
//@ outside: production buffer sizes (same code, constants differ)
//@ replay: verif_replay_encrypt::enc_writer off=3 blen=2 ctr:u32
#[kani::proof]
#[kani::unwind(8)]
#[kani::stub(alloc::fmt::format, nofmt)]
#[kani::stub(<std::io::Error as std::convert::From<crate::errors::Error>>::from, cheap_from)]
#[kani::stub(crate::crypto::aesgcm::AesGcm256::new, stub_gcm_new)]
#[kani::stub(std::io::copy, copy_small_enc)]
fn h_enc_w_3_2() {
    writer_step_body(3, 2);
}

//@ props: C01 C06 C07 C13
//@ scaled: yes
//@ tier: thorough
//@ functions: <layers::encrypt::EncryptionLayerWriter<W> as std::io::Write>::write; build_nonce; AesGcm256::encrypt over model primitives
//@ bounds: SCALED build (chunk 4, cipher buffer 3); CONCRETE chunk offset 3 and buffer length 3 (thorough tier: ALL 35 pairs offset 0..=4 x length 0..=6 are enumerated); symbolic data bytes, key, nonce prefix, chunk counter < 2^32-1, pending GHASH bytes
//@ stubs: AesGcm256::new -> same struct via model constructors; std::io::copy -> single read + write_all; alloc::fmt::format; From<mla::Error> for io::Error; model aes/ctr/ghash
//@ outside: production buffer sizes (same code, constants differ)
//@ replay: verif_replay_encrypt::enc_writer off=3 blen=3 ctr:u32
#[kani::proof]
#[kani::unwind(8)]
#[kani::stub(alloc::fmt::format, nofmt)]
#[kani::stub(<std::io::Error as std::convert::From<crate::errors::Error>>::from, cheap_from)]
#[kani::stub(crate::crypto::aesgcm::AesGcm256::new, stub_gcm_new)]
#[kani::stub(std::io::copy, copy_small_enc)]
fn h_enc_w_3_3() {
    writer_step_body(3, 3);
}

//@ props: C01 C06 C07 C13
//@ scaled: yes
//@ tier: thorough
//@ functions: <layers::encrypt::EncryptionLayerWriter<W> as std::io::Write>::write; build_nonce; AesGcm256::encrypt over model primitives
//@ bounds: SCALED build (chunk 4, cipher buffer 3); CONCRETE chunk offset 3 and buffer length 4 (thorough tier: ALL 35 pairs offset 0..=4 x length 0..=6 are enumerated); symbolic data bytes, key, nonce prefix, chunk counter < 2^32-1, pending GHASH bytes
//@ stubs: AesGcm256::new -> same struct via model constructors; std::io::copy -> single read + write_all; alloc::fmt::format; From<mla::Error> for io::Error; model aes/ctr/ghash
//@ outside: production buffer sizes (same code, constants differ)
//@ replay: verif_replay_encrypt::enc_writer off=3 blen=4 ctr:u32
#[kani::proof]
#[kani::unwind(8)]
#[kani::stub(alloc::fmt::format, nofmt)]
#[kani::stub(<std::io::Error as std::convert::From<crate::errors::Error>>::from, cheap_from)]
#[kani::stub(crate::crypto::aesgcm::AesGcm256::new, stub_gcm_new)]
#[kani::stub(std::io::copy, copy_small_enc)]
fn h_enc_w_3_4() {
    writer_step_body(3, 4);
}

//@ props: C01 C06 C07 C13
//@ scaled: yes
//@ tier: thorough
//@ functions: <layers::encrypt::EncryptionLayerWriter<W> as std::io::Write>::write; build_nonce; AesGcm256::encrypt over model primitives
//@ bounds: SCALED build (chunk 4, cipher buffer 3); CONCRETE chunk offset 3 and buffer length 6 (thorough tier: ALL 35 pairs offset 0..=4 x length 0..=6 are enumerated); symbolic data bytes, key, nonce prefix, chunk counter < 2^32-1, pending GHASH bytes
//@ stubs: AesGcm256::new -> same struct via model constructors; std::io::copy -> single read + write_all; alloc::fmt::format; From<mla::Error> for io::Error; model aes/ctr/ghash
//@ outside: production buffer sizes (same code, constants differ)
//@ replay: verif_replay_encrypt::enc_writer off=3 blen=6 ctr:u32
#[kani::proof]
#[kani::unwind(8)]
#[kani::stub(alloc::fmt::format, nofmt)]
#[kani::stub(<std::io::Error as std::convert::From<crate::errors::Error>>::from, cheap_from)]
#[kani::stub(crate::crypto::aesgcm::AesGcm256::new, stub_gcm_new)]
#[kani::stub(std::io::copy, copy_small_enc)]
fn h_enc_w_3_6() {
    writer_step_body(3, 6);
}

//@ props: C01 C06 C07 C13
//@ scaled: yes
//@ tier: thorough
//@ functions: <layers::encrypt::EncryptionLayerWriter<W> as std::io::Write>::write (roll-over arm); EncryptionLayerWriter::renew_cipher; AesGcm256::into_tag; build_nonce; AesGcm256::encrypt over model primitives
//@ bounds: SCALED build (chunk 4, cipher buffer 3); CONCRETE chunk offset 4 and buffer length 2 (thorough tier: ALL 35 pairs offset 0..=4 x length 0..=6 are enumerated); symbolic data bytes, key, nonce prefix, chunk counter < 2^32-1, pending GHASH bytes
//@ stubs: AesGcm256::new -> same struct via model constructors; std::io::copy -> single read + write_all; alloc::fmt::format; From<mla::Error> for io::Error; model aes/ctr/ghash
//@ outside: production buffer sizes (same code, constants differ)
//@ replay: verif_replay_encrypt::enc_writer off=4 blen=2 ctr:u32
#[kani::proof]
#[kani::unwind(18)]
#[kani::stub(alloc::fmt::format, nofmt)]
#[kani::stub(<std::io::Error as std::convert::From<crate::errors::Error>>::from, cheap_from)]
#[kani::stub(crate::crypto::aesgcm::AesGcm256::new, stub_gcm_new)]
#[kani::stub(std::io::copy, copy_small_enc)]
fn h_enc_w_4_2() {
    writer_step_body(4, 2);
}

//@ props: C01 C06 C07 C13
//@ scaled: yes
//@ tier: thorough
//@ functions: <layers::encrypt::EncryptionLayerWriter<W> as std::io::Write>::write (roll-over arm); EncryptionLayerWriter::renew_cipher; AesGcm256::into_tag; build_nonce; AesGcm256::encrypt over model primitives
//@ bounds: SCALED build (chunk 4, cipher buffer 3); CONCRETE chunk offset 4 and buffer length 3 (thorough tier: ALL 35 pairs offset 0..=4 x length 0..=6 are enumerated); symbolic data bytes, key, nonce prefix, chunk counter < 2^32-1, pending GHASH bytes
//@ stubs: AesGcm256::new -> same struct via model constructors; std::io::copy -> single read + write_all; alloc::fmt::format; From<mla::Error> for io::Error; model aes/ctr/ghash
//@ outside: production buffer sizes (same code, constants differ)
//@ replay: verif_replay_encrypt::enc_writer off=4 blen=3 ctr:u32
#[kani::proof]
#[kani::unwind(18)]
#[kani::stub(alloc::fmt::format, nofmt)]
#[kani::stub(<std::io::Error as std::convert::From<crate::errors::Error>>::from, cheap_from)]
#[kani::stub(crate::crypto::aesgcm::AesGcm256::new, stub_gcm_new)]
#[kani::stub(std::io::copy, copy_small_enc)]
fn h_enc_w_4_3() {
    writer_step_body(4, 3);
}

//@ props: C01 C06 C07 C13
//@ scaled: yes
//@ tier: thorough
//@ functions: <layers::encrypt::EncryptionLayerWriter<W> as std::io::Write>::write (roll-over arm); EncryptionLayerWriter::renew_cipher; AesGcm256::into_tag; build_nonce; AesGcm256::encrypt over model primitives
//@ bounds: SCALED build (chunk 4, cipher buffer 3); CONCRETE chunk offset 4 and buffer length 4 (thorough tier: ALL 35 pairs offset 0..=4 x length 0..=6 are enumerated); symbolic data bytes, key, nonce prefix, chunk counter < 2^32-1, pending GHASH bytes
//@ stubs: AesGcm256::new -> same struct via model constructors; std::io::copy -> single read + write_all; alloc::fmt::format; From<mla::Error> for io::Error; model aes/ctr/ghash
//@ outside: production buffer sizes (same code, constants differ)
//@ replay: verif_replay_encrypt::enc_writer off=4 blen=4 ctr:u32
#[kani::proof]
#[kani::unwind(18)]
#[kani::stub(alloc::fmt::format, nofmt)]
#[kani::stub(<std::io::Error as std::convert::From<crate::errors::Error>>::from, cheap_from)]
#[kani::stub(crate::crypto::aesgcm::AesGcm256::new, stub_gcm_new)]
#[kani::stub(std::io::copy, copy_small_enc)]
fn h_enc_w_4_4() {
    writer_step_body(4, 4);
}

//@ props: C01 C06 C07 C13
//@ scaled: yes
//@ tier: thorough
//@ functions: <layers::encrypt::EncryptionLayerWriter<W> as std::io::Write>::write (roll-over arm); EncryptionLayerWriter::renew_cipher; AesGcm256::into_tag; build_nonce; AesGcm256::encrypt over model primitives
//@ bounds: SCALED build (chunk 4, cipher buffer 3); CONCRETE chunk offset 4 and buffer length 5 (thorough tier: ALL 35 pairs offset 0..=4 x length 0..=6 are enumerated); symbolic data bytes, key, nonce prefix, chunk counter < 2^32-1, pending GHASH bytes
//@ stubs: AesGcm256::new -> same struct via model constructors; std::io::copy -> single read + write_all; alloc::fmt::format; From<mla::Error> for io::Error; model aes/ctr/ghash
//@ outside: production buffer sizes (same code, constants differ)
//@ replay: verif_replay_encrypt::enc_writer off=4 blen=5 ctr:u32
#[kani::proof]
#[kani::unwind(18)]
#[kani::stub(alloc::fmt::format, nofmt)]
#[kani::stub(<std::io::Error as std::convert::From<crate::errors::Error>>::from, cheap_from)]
#[kani::stub(crate::crypto::aesgcm::AesGcm256::new, stub_gcm_new)]
#[kani::stub(std::io::copy, copy_small_enc)]
fn h_enc_w_4_5() {
    writer_step_body(4, 5);
}

fn writer_step_body(off: u64, blen: usize) {
    let ctr: u32 = kani::any();
    kani::assume(off <= SPEC_CHUNK && ctr < u32::MAX);
    let key: Key = [kani::any(); 32];
    let prefix: [u8; NONCE_SIZE] = kani::any();
    let data: [u8; 6] = kani::any();
    let mut w = mk_writer(off, ctr, key, prefix, kani::any());
    // the sink takes only ONE byte of the first write it sees: the layer must use write_all
    unsafe { REC_FIRST_ACCEPT = 1 };
    kani::cover!(ctr > 0, "later chunk");
    kani::cover!(ctr == 0, "first chunk");
    let r = w.write(&data[..blen]);
    // what was accepted must have reached the sink once flush() returns (a writer may gather bytes
    // between the two calls)
    let fr = w.flush();
    let flushed = fr.is_ok();
    core::mem::forget(fr);
    assert!(flushed, "flush on a healthy sink fails");
    let rolled = off == SPEC_CHUNK;
    let off1 = if rolled { 0 } else { off };
    let want_n = core::cmp::min(core::cmp::min(3, blen as u64), SPEC_CHUNK - off1);
    match r {
        Ok(n) => {
            assert!(n as u64 == want_n, "write accepts min(cipher buffer, buffer, rest of the chunk)");
            assert!(w.current_chunk_offset == off1 + want_n, "chunk offset advances by the bytes accepted");
            assert!(w.current_ctr == ctr + rolled as u32, "one counter per chunk: incremented exactly at roll-over");
            // what reached the sink
            let sink: &Rec = unsafe { &*(&*w.inner as *const dyn LayerWriter<'static, Rec> as *const Rec) };
            let tag_len: u64 = if rolled { 16 } else { 0 };
            assert!(sink.n == tag_len + want_n, "after write + flush the sink holds the tag of the finished chunk (16 bytes) then exactly the accepted bytes");
            assert!(sink.flushes >= 1, "flush is forwarded to the inner writer");
            // every forwarded data byte is plaintext XOR keystream(key, nonce || ctr', 16 + offset)
            let c_ref = model_build(&key, &build_nonce(prefix, ctr + rolled as u32));
            let mut i = 0usize;
            while i < 3 {
                if (i as u64) < want_n {
                    let ks = crate::crypto::aesgcm::verif_aesgcm::ks_at(&c_ref, 16 + off1 + i as u64);
                    assert!(sink.first[tag_len as usize + i] == data[i] ^ ks, "byte forwarded = plaintext XOR keystream of (key, archive nonce || BE32(chunk index), position)");
                }
                i += 1;
            }
            core::mem::forget(c_ref);
        }
        Err(e) => {
            core::mem::forget(e);
            assert!(false, "write on a healthy sink fails");
        }
    }
    core::mem::forget(w);
}

/// stand-in for `std::io::copy` in the writer: one read of <= 8 bytes, then write_all
fn copy_small_enc<R: Read + ?Sized, W: Write + ?Sized>(r: &mut R, w: &mut W) -> io::Result<u64> {
    let mut tmp = [0u8; 8];
    let n = r.read(&mut tmp)?;
    w.write_all(&tmp[..n])?;
    Ok(n as u64)
}

//@ props: C01 C06 C13
//@ scaled: yes
//@ functions: <layers::encrypt::EncryptionLayerWriter<W> as layers::traits::LayerWriter>::finalize; renew_cipher; AesGcm256::into_tag
//@ bounds: SCALED build; chunk offset 0..=4, any counter < 2^32-1
//@ stubs: alloc::fmt::format; From<mla::Error> for io::Error; model aes/ctr/ghash
//@ outside: -
//@ replay: verif_replay_encrypt::enc_writer off:u64 ctr:u32
#[kani::proof]
#[kani::unwind(18)]
#[kani::stub(alloc::fmt::format, nofmt)]
#[kani::stub(<std::io::Error as std::convert::From<crate::errors::Error>>::from, cheap_from)]
#[kani::stub(crate::crypto::aesgcm::AesGcm256::new, stub_gcm_new)]
fn h_enc_writer_finalize() {
    let off: u64 = kani::any();
    let ctr: u32 = kani::any();
    kani::assume(off <= SPEC_CHUNK && ctr < u32::MAX);
    let key: Key = [kani::any(); 32];
    let prefix: [u8; NONCE_SIZE] = kani::any();
    let pending: [u8; 4] = kani::any();
    let mut w = mk_writer(off, ctr, key, prefix, pending);
    kani::cover!(off == 0, "finalize right after a roll-over or on an empty stream");
    kani::cover!(off == SPEC_CHUNK, "finalize on a full chunk: exactly one tag, no empty extra chunk");
    // the sink takes only ONE byte of the first write it sees: the tag must be written with write_all
    unsafe { REC_FIRST_ACCEPT = 1 };
    let r = w.finalize();
    let okk = r.is_ok();
    core::mem::forget(r);
    assert!(okk, "finalize on a healthy sink fails");
    let sink: &Rec = unsafe { &*(&*w.inner as *const dyn LayerWriter<'static, Rec> as *const Rec) };
    assert!(sink.n == 16, "finalize emits exactly the 16-byte tag of the open chunk");
    assert!(w.current_ctr == ctr + 1 && w.current_chunk_offset == 0);
    // the tag is the one of the chunk's own cipher (same key, nonce, counter, bytes)
    let t_ref = crate::crypto::aesgcm::verif_aesgcm::model_build_at(&key, &build_nonce(prefix, ctr), off, pending).into_tag();
    let mut j = 0;
    while j < 16 {
        assert!(sink.first[j] == t_ref[j], "the emitted tag authenticates this chunk under nonce || BE32(chunk index)");
        j += 1;
    }
    core::mem::forget(w);
}

// ------------------------------------------------------------------------------------------
// H-RECIPIENTS: candidate private keys are tried in turn (C07)
// ------------------------------------------------------------------------------------------
static mut RK_OUTCOME: [u8; 3] = [0; 3]; // 0 = Ok(None), 1 = Ok(Some(key_i)), 2 = Err
static mut RK_CALLS: usize = 0;
fn stub_retrieve_key(_p: &MultiRecipientPersistent, _k: &StaticSecret) -> Result<Option<[u8; 32]>, Error> {
    let i = unsafe { RK_CALLS };
    unsafe { RK_CALLS = i + 1 };
    kani::assume(i < 3);
    match unsafe { RK_OUTCOME[i] } {
        0 => Ok(None),
        1 => Ok(Some([0x10 + i as u8; 32])),
        _ => Err(Error::HKDFInvalidKeyLength),
    }
}

//@ props: C07 C03
//@ functions: layers::encrypt::EncryptionReaderConfig::load_persistent
//@ bounds: 0..=3 candidate private keys; for each, the unwrap attempt yields no match / a key / an error, all combinations; any archive nonce
//@ stubs: crypto::ecc::retrieve_key -> scripted outcome per candidate (its real body is decided by h_ecc_*); alloc::fmt::format
//@ outside: more than 3 candidates (the loop body is the same)
//@ replay: verif_replay_ecc::recipients nkeys:usize o0:u8 o1:u8 o2:u8
#[kani::proof]
#[kani::unwind(34)]
#[kani::stub(alloc::fmt::format, nofmt)]
#[kani::stub(crate::crypto::ecc::retrieve_key, stub_retrieve_key)]
fn h_enc_recipients() {
    let nkeys: usize = kani::any();
    kani::assume(nkeys <= 3);
    let o: [u8; 3] = [kani::any(), kani::any(), kani::any()];
    kani::assume(o[0] <= 2 && o[1] <= 2 && o[2] <= 2);
    unsafe {
        RK_OUTCOME = o;
        RK_CALLS = 0;
    }
    let mut keys: Vec<StaticSecret> = Vec::with_capacity(3);
    let mut i = 0;
    while i < 3 {
        if i < nkeys {
            keys.push(StaticSecret::from([i as u8; 32]));
        }
        i += 1;
    }
    let nonce: [u8; NONCE_SIZE] = kani::any();
    let persist = EncryptionPersistentConfig {
        multi_recipient: crate::crypto::ecc::verif_ecc::empty_persistent(),
        nonce,
    };
    let mut cfg = EncryptionReaderConfig { private_keys: keys, encrypt_parameters: None, failsafe_mode: FailSafeReaderDecryptionMode::OnlyAuthenticatedData };
    kani::cover!(nkeys == 3 && o[0] == 0 && o[1] == 2 && o[2] == 1, "the right key is the last candidate, after a miss and an error");
    kani::cover!(nkeys == 0, "no private key supplied");
    let r = cfg.load_persistent(&persist);
    // first candidate (in order) that unwraps
    let mut first: Option<usize> = None;
    let mut j = 0;
    while j < 3 {
        if j < nkeys && first.is_none() && o[j] == 1 {
            first = Some(j);
        }
        j += 1;
    }
    match r {
        Ok(()) => {
            assert!(first.is_some(), "archive opened although no candidate key unwrapped the archive key");
            let (k, n) = cfg.encrypt_parameters.unwrap();
            assert!(k == [0x10 + first.unwrap() as u8; 32] && n == nonce, "parameters are the unwrapped key and the header nonce");
        }
        Err(e) => {
            core::mem::forget(e);
            assert!(first.is_none(), "a recipient key in the candidate list was not accepted (position must not matter)");
            assert!(cfg.encrypt_parameters.is_none());
        }
    }
    core::mem::forget(cfg);
}

//@ props: C06 C03
//@ functions: layers::encrypt::build_nonce
//@ bounds: every 8-byte archive nonce and every 32-bit chunk counter
//@ outside: -
//@ replay: verif_replay_encrypt::enc_nonce _:skip8 ctr:u32
#[kani::proof]
#[kani::unwind(14)]
fn h_enc_nonce() {
    let prefix: [u8; NONCE_SIZE] = kani::any();
    let ctr: u32 = kani::any();
    kani::cover!(ctr == 1, "second chunk");
    kani::cover!(ctr > 0x0100_0000, "high counter byte set");
    let n = build_nonce(prefix, ctr);
    let mut i = 0;
    while i < 8 {
        assert!(n[i] == prefix[i], "chunk nonce starts with the 8-byte archive nonce");
        i += 1;
    }
    assert!(n[8] == (ctr >> 24) as u8 && n[9] == (ctr >> 16) as u8 && n[10] == (ctr >> 8) as u8 && n[11] == ctr as u8, "followed by the chunk index, big-endian");
    assert!(NONCE_SIZE == 8 && n.len() == 12, "96-bit GCM nonce = 64-bit archive nonce || 32-bit counter");
}

// ------------------------------------------------------------------------------------------
// Writer-side configuration: recipients accumulate; the header's ephemeral key comes from OS
// entropy drawn when the header is produced (C07)
// ------------------------------------------------------------------------------------------
//@ props: C07
//@ functions: ArchiveWriterConfig::add_public_keys; EncryptionConfig::to_persistent; crypto::ecc::store_key_for_multi_recipients (over model primitives)
//@ bounds: recipients handed over in two calls (1 + 1, ANY public keys); ANY symmetric key, archive nonce and OS entropy
//@ stubs: model rand / rand_chacha (OS entropy = ghost symbolic array, seeding from a fixed seed is counted), model x25519 / HKDF / aes / ctr / ghash; alloc::fmt::format
//@ outside: more than two calls / recipients (same loop); statistical quality of the OS generator
//@ replay: verif_replay_ecc::cfg_recipients_and_header
//@ timeout: 1500
#[kani::proof]
#[kani::unwind(34)]
#[kani::stub(alloc::fmt::format, nofmt)]
fn h_enc_cfg_recipients_header() {
    let p0: [u8; 32] = kani::any();
    let p1: [u8; 32] = kani::any();
    let key: Key = kani::any();
    let nonce: [u8; NONCE_SIZE] = kani::any();
    let ent: [u8; 32] = kani::any();
    let mut cfg = ArchiveWriterConfig::new();
    cfg.encrypt.key = key;
    cfg.encrypt.nonce = nonce;
    cfg.add_public_keys(&[PublicKey::from(p0)]);
    cfg.add_public_keys(&[PublicKey::from(p1)]);
    assert!(cfg.encrypt.ecc_keys.len() == 2, "recipients added in turn are all kept");
    assert!(*cfg.encrypt.ecc_keys[0].as_bytes() == p0 && *cfg.encrypt.ecc_keys[1].as_bytes() == p1, "recipients are kept in the order given");
    unsafe {
        rand::ghost::OS_ENTROPY[0] = ent;
        rand::ghost::OS_CALLS = 0;
        rand::ghost::FIXED_SEEDS = 0;
    }
    let r = cfg.encrypt.to_persistent();
    match r {
        Ok(p) => {
            unsafe {
                assert!(rand::ghost::OS_CALLS == 1, "producing the header draws fresh OS entropy for the ephemeral scalar");
                assert!(rand::ghost::FIXED_SEEDS == 0, "the ephemeral scalar's generator is not seeded from a value the archive already holds");
            }
            let eph_pub = PublicKey::from(&StaticSecret::from(ent));
            assert!(crate::crypto::ecc::verif_ecc::persist_public(&p.multi_recipient) == *eph_pub.as_bytes(), "header carries the public key of a scalar taken from the fresh OS entropy");
            assert!(crate::crypto::ecc::verif_ecc::persist_count(&p.multi_recipient) == 2, "one wrapped key per recipient");
            assert!(p.nonce == nonce, "header carries the archive nonce");
            kani::cover!(true, "header produced");
            core::mem::forget(p);
        }
        Err(e) => {
            core::mem::forget(e);
            assert!(false, "header production fails");
        }
    }
    core::mem::forget(cfg);
}
