// Harness module appended to the real mla/src/layers/encrypt.rs (child module `verif_encrypt`:
// sees every private item of the encryption layer). The code under test is the unmodified real
// source above this module; nothing of it is re-implemented here. What *is* written here:
//   * the layout specification from FORMAT.md, with literal numbers (SPEC_*),
//   * the load contract (`load_spec`) used as a stub in position harnesses and checked against the
//     real `load_in_cache*` bodies by the refinement harnesses,
//   * one `#[kani::proof]` per decided kernel.
#![allow(dead_code, unused_imports, clippy::all)]
use super::*;
extern crate alloc;
use crate::crypto::aesgcm::verif_aesgcm::{ghost_iv, ghost_key, ghost_pos, model_build};
use crate::verif_common::*;
use crate::{exclude_known, is_known, replay_cap};

// ------------------------------------------------------------------------------------------
// Specification (FORMAT.md): chunks of 128 KiB of plaintext, each followed by a 16-byte tag.
// ------------------------------------------------------------------------------------------
const SPEC_CHUNK: u64 = 131_072;
const SPEC_TAG: u64 = 16;
const SPEC_CTS: u64 = 131_088;

/// `n` is the length of a stream the encryption writer can produce
fn wf(n: u64) -> bool {
    let r = n % SPEC_CTS;
    n == SPEC_TAG || (r == 0 && n > 0) || r > SPEC_TAG
}
/// plaintext length of a well-formed tagged stream of `n` bytes
fn plain_len(n: u64) -> u64 {
    let r = n % SPEC_CTS;
    (n / SPEC_CTS) * SPEC_CHUNK + if r == 0 { 0 } else { r - SPEC_TAG }
}
/// tagged-stream offset of plaintext offset `p`
fn tagged(p: u64) -> u64 {
    p + SPEC_TAG * (p / SPEC_CHUNK)
}
/// number of plaintext bytes in chunk `c` of a well-formed stream of `n` bytes
fn chunk_plain_len(n: u64, c: u64) -> u64 {
    let start = c * SPEC_CTS;
    if start >= n {
        0
    } else {
        core::cmp::min(n - start, SPEC_CTS) - SPEC_TAG
    }
}

fn ok<T>(r: io::Result<T>) -> T {
    match r {
        Ok(v) => v,
        Err(e) => {
            core::mem::forget(e);
            kani::assume(false);
            unreachable!()
        }
    }
}

// ------------------------------------------------------------------------------------------
// Ghost state shared between harness and stubs
// ------------------------------------------------------------------------------------------
/// ideal-MAC ghost: is the chunk stored at index i authentic (ciphertext and index original)?
static mut AUTHENTIC: [bool; 4] = [true; 4];
/// ghost: everything beyond index 3 shares this flag
static mut AUTHENTIC_REST: bool = true;
/// ghost log of loads
static mut LOADS: u32 = 0;
static mut LAST_LOAD_CHUNK: u32 = 0;
static mut LAST_LOAD_FROM: u64 = 0;

fn authentic(i: u32) -> bool {
    unsafe {
        if (i as usize) < 4 {
            AUTHENTIC[i as usize]
        } else {
            AUTHENTIC_REST
        }
    }
}

// ------------------------------------------------------------------------------------------
// Load contract. `q` = inner position before, `len` = inner length.
// ------------------------------------------------------------------------------------------
#[derive(Clone, Copy, PartialEq, Eq)]
enum LoadRet {
    None,
    Some,
    ErrTag,
}
struct LoadPost {
    inner_pos: u64,
    cache_len: u64,
    ret: LoadRet,
}
/// authenticated load: reads min(CTS, len-q) bytes; nothing → None; the last 16 are the tag
fn load_spec_auth(q: u64, len: u64, auth: bool) -> LoadPost {
    let avail = len.saturating_sub(q);
    let got = core::cmp::min(avail, SPEC_CTS);
    if got == 0 {
        return LoadPost { inner_pos: q, cache_len: 0, ret: LoadRet::None };
    }
    if !auth {
        return LoadPost { inner_pos: q + got, cache_len: 0, ret: LoadRet::ErrTag };
    }
    LoadPost { inner_pos: q + got, cache_len: got - SPEC_TAG, ret: LoadRet::Some }
}
/// unauthenticated load: reads min(CHUNK, len-q) data bytes, then skips up to 16 tag bytes
fn load_spec_unauth(q: u64, len: u64) -> LoadPost {
    let avail = len.saturating_sub(q);
    let data = core::cmp::min(avail, SPEC_CHUNK);
    if data == 0 {
        return LoadPost { inner_pos: q, cache_len: 0, ret: LoadRet::None };
    }
    let skip = core::cmp::min(avail - data, SPEC_TAG);
    LoadPost { inner_pos: q + data + skip, cache_len: data, ret: LoadRet::Some }
}

/// a Vec<u8> of symbolic length `n <= 131072` without a symbolic-size allocation
fn vec_of_len(n: u64) -> Vec<u8> {
    kani::assume(n <= SPEC_CHUNK);
    let mut v = vec![0u8; SPEC_CHUNK as usize];
    unsafe { v.set_len(n as usize) };
    v
}

/// Stub standing for `EncryptionLayerInternal::load_in_cache` in position harnesses.
fn contract_load_auth<T: ?Sized + Read + Seek>(
    s: &mut EncryptionLayerInternal<T>,
) -> Result<Option<()>, Error> {
    let q = ok(s.inner.seek(SeekFrom::Current(0)));
    let len = ok(s.inner.seek(SeekFrom::End(0)));
    let post = load_spec_auth(q, len, authentic(s.current_chunk_number));
    ok(s.inner.seek(SeekFrom::Start(post.inner_pos)));
    unsafe {
        LOADS += 1;
        LAST_LOAD_CHUNK = s.current_chunk_number;
        LAST_LOAD_FROM = q;
    }
    // the well-formedness precondition of the real body: a non-empty read holds a whole tag
    assert!(post.inner_pos == q || post.inner_pos - q >= SPEC_TAG, "load precondition: chunk shorter than its tag");
    s.chunk_cache.get_mut().clear();
    match post.ret {
        LoadRet::None => Ok(None),
        LoadRet::ErrTag => Err(Error::AuthenticatedDecryptionWrongTag),
        LoadRet::Some => {
            s.chunk_cache = Cursor::new(vec_of_len(post.cache_len));
            Ok(Some(()))
        }
    }
}

fn mk_internal(
    inner: Abs,
    ccn: u32,
    cache_len: u64,
    cache_pos: u64,
) -> EncryptionLayerInternal<Abs> {
    let key = [2u8; 32];
    let nonce = [3u8; NONCE_SIZE];
    let mut c = Cursor::new(vec_of_len(cache_len));
    c.set_position(cache_pos);
    EncryptionLayerInternal {
        inner: Box::new(inner),
        cipher: model_build(&key, &build_nonce(nonce, ccn)),
        key,
        nonce,
        chunk_cache: c,
        current_chunk_number: ccn,
    }
}

/// arbitrary reader pre-state over a stream of `n` bytes (history abstraction: whatever was read
/// or sought before, the fields hold *some* values)
fn any_internal(n: u64) -> EncryptionLayerInternal<Abs> {
    let ipos: u64 = kani::any();
    kani::assume(ipos <= n);
    let ccn: u32 = kani::any();
    let cl: u64 = kani::any();
    let cp: u64 = kani::any();
    kani::assume(cl <= SPEC_CHUNK && cp <= SPEC_CHUNK);
    mk_internal(Abs::new(n, ipos), ccn, cl, cp)
}

/// observable reader state after a successful positioning at plaintext offset `p`
fn assert_positioned(l: &EncryptionLayerInternal<Abs>, n: u64, p: u64) {
    let c = p / SPEC_CHUNK;
    assert!(u64::from(l.current_chunk_number) == c, "chunk number is a function of the target only");
    assert!(l.chunk_cache.position() == p % SPEC_CHUNK, "cache offset is a function of the target only");
    assert!(l.inner.pos == core::cmp::min(n, (c + 1) * SPEC_CTS), "inner stream left after the loaded chunk");
    assert!(l.chunk_cache.get_ref().len() as u64 == chunk_plain_len(n, c), "cache holds exactly the target chunk");
    unsafe {
        assert!(LOADS >= 1 && u64::from(LAST_LOAD_CHUNK) == c && LAST_LOAD_FROM == c * SPEC_CTS, "target chunk (re)loaded and authenticated from its first byte");
    }
}

// ------------------------------------------------------------------------------------------
// H-ENC-MAPS: position maps vs FORMAT.md layout (C01, C11)
// ------------------------------------------------------------------------------------------
//@ props: C01 C11
//@ functions: layers::encrypt::no_tag_position_to_tag_position
//@ bounds: every plaintext position p < 2^62
//@ outside: positions >= 2^62 (overflow behaviour is checked under C08)
//@ replay: verif_replay_encrypt::enc_maps p:u64
#[kani::proof]
fn h_enc_maps_fwd() {
    let p: u64 = kani::any();
    kani::assume(p < (1u64 << 62));
    kani::cover!(p % SPEC_CHUNK == 0 && p > 0, "chunk-aligned position");
    kani::cover!(p % SPEC_CHUNK == SPEC_CHUNK - 1, "last byte of a chunk");
    let t = no_tag_position_to_tag_position(p);
    assert!(t == tagged(p), "untagged->tagged map equals p + 16*floor(p/128KiB)");
    assert!(CHUNK_TAG_SIZE == SPEC_CTS && CHUNK_SIZE == SPEC_CHUNK && TAG_LENGTH as u64 == SPEC_TAG, "format constants: 128 KiB chunks, 16-byte tags");
}

/// inverse map on every tagged position (data byte or tag byte) of chunks 0..2^32 (the chunk
/// index is a u32 in the format, so this is the whole reachable domain)
//@ props: C01 C11
//@ functions: layers::encrypt::tag_position_to_no_tag_position; layers::encrypt::no_tag_position_to_tag_position
//@ bounds: every tagged position k*131088+o with chunk index k <= u32::MAX and 0 <= o < 131088 (data and tag bytes)
//@ outside: chunk indices beyond u32 (not representable in the format)
//@ replay: verif_replay_encrypt::enc_maps_inv k:u64 o:u64
#[kani::proof]
fn h_enc_maps_inv() {
    let k: u64 = kani::any();
    kani::assume(k <= u32::MAX as u64);
    let o: u64 = kani::any();
    kani::assume(o < SPEC_CTS);
    kani::cover!(o >= SPEC_CHUNK, "inside a tag");
    kani::cover!(o == 0 && k > 0, "first byte of a later chunk");
    let got = tag_position_to_no_tag_position(k * SPEC_CTS + o);
    if o < SPEC_CHUNK {
        assert!(got == k * SPEC_CHUNK + o, "data position maps back to chunk*128KiB + offset");
        assert!(no_tag_position_to_tag_position(got) == k * SPEC_CTS + o, "maps are inverse on data positions");
    } else {
        assert!(got == (k + 1) * SPEC_CHUNK, "a position inside a tag rounds to the end of its chunk");
    }
}

// ------------------------------------------------------------------------------------------
// H-ENC-SEEK-*: the real Seek::seek over an abstract inner stream, loads by contract
// (C11 positions/end; C10 independence from the pre-state; C01/C03 footer location)
// ------------------------------------------------------------------------------------------
/// stream-length bound of the functional seek harnesses: 2^VERIF_NBITS (quick 40, thorough 48)
const N_BOUND: u64 = 1u64 << env_u32(option_env!("VERIF_NBITS"), 36);
/// native replay can materialise a handful of chunks
const REPLAY_N_CAP: u64 = 6 * SPEC_CTS;

fn any_wf_len() -> u64 {
    let n: u64 = kani::any();
    kani::assume(n < N_BOUND && wf(n));
    if replay_cap!() {
        kani::assume(n <= REPLAY_N_CAP);
    }
    n
}

//@ props: C11 C10 C01
//@ functions: <layers::encrypt::EncryptionLayerInternal<R> as std::io::Seek>::seek (SeekFrom::Start arm); layers::encrypt::no_tag_position_to_tag_position
//@ bounds: every well-formed inner length n < 2^{NBITS} (all residues mod 131088, exact multiples, n = 16); every target 0 <= p <= len; arbitrary pre-state (chunk number, cache length/offset <= 128 KiB, inner position <= n)
//@ stubs: EncryptionLayerInternal::load_in_cache -> load contract (refined by h_enc_load_auth_refines); alloc::fmt::format -> empty; From<mla::Error> for io::Error -> payload-free
//@ outside: inner streams >= 2^{NBITS} bytes; byte values (decided by the load contract + refinement harness)
//@ replay: verif_replay_encrypt::enc_seek op=start n:u64 ipos:u64 ccn:u32 cl:u64 cp:u64 p:u64
#[kani::proof]
#[kani::unwind(3)]
#[kani::stub(alloc::fmt::format, nofmt)]
#[kani::stub(<std::io::Error as std::convert::From<crate::errors::Error>>::from, cheap_from)]
#[kani::stub(EncryptionLayerInternal::load_in_cache, contract_load_auth)]
fn h_enc_seek_start() {
    let n = any_wf_len();
    let big_l = plain_len(n);
    let mut l = any_internal(n);
    let p: u64 = kani::any();
    kani::assume(p <= big_l);
    kani::cover!(n % SPEC_CTS == 0, "plaintext length is an exact multiple of 128 KiB");
    kani::cover!(p == big_l && n % SPEC_CTS == 0, "seek to the end, exact multiple");
    kani::cover!(p == big_l && n % SPEC_CTS > 16, "seek to the end, partial last chunk");
    kani::cover!(n == 16, "empty plaintext");
    kani::cover!(p / SPEC_CHUNK >= 2, "third chunk or later");
    let r = l.seek(SeekFrom::Start(p));
    match r {
        Ok(got) => {
            assert!(got == p, "seek(Start(p)) returns p");
            assert_positioned(&l, n, p);
        }
        Err(e) => {
            core::mem::forget(e);
            assert!(false, "seek(Start(p)) with p in [0, len] fails on a well-formed authentic stream");
        }
    }
    core::mem::forget(l);
}

//@ props: C11 C10 C01 C03
//@ functions: <layers::encrypt::EncryptionLayerInternal<R> as std::io::Seek>::seek (SeekFrom::End arm, then Start arm)
//@ bounds: every well-formed inner length n < 2^{NBITS}; every offset -len <= d <= 0 (End(0), End(-4) as used to locate both footers); arbitrary pre-state
//@ stubs: EncryptionLayerInternal::load_in_cache -> load contract (refined by h_enc_load_auth_refines); alloc::fmt::format -> empty; From<mla::Error> for io::Error -> payload-free
//@ outside: inner streams >= 2^{NBITS} bytes; malformed lengths (C08 harnesses)
//@ replay: verif_replay_encrypt::enc_seek op=end n:u64 ipos:u64 ccn:u32 cl:u64 cp:u64 d:i64
#[kani::proof]
#[kani::unwind(3)]
#[kani::stub(alloc::fmt::format, nofmt)]
#[kani::stub(<std::io::Error as std::convert::From<crate::errors::Error>>::from, cheap_from)]
#[kani::stub(EncryptionLayerInternal::load_in_cache, contract_load_auth)]
fn h_enc_seek_end() {
    let n = any_wf_len();
    let big_l = plain_len(n);
    let mut l = any_internal(n);
    let d: i64 = kani::any();
    kani::assume(d <= 0 && (-(d as i128)) as u128 <= big_l as u128);
    let want = (big_l as i128 + d as i128) as u64;
    kani::cover!(n % SPEC_CTS == 0, "plaintext length is an exact multiple of 128 KiB");
    kani::cover!(n % SPEC_CTS > 16, "partial last chunk");
    kani::cover!(n == 16, "empty plaintext");
    kani::cover!(d == 0, "End(0)");
    kani::cover!(d == -4 && big_l >= 4, "End(-4): how both footers are located");
    let r = l.seek(SeekFrom::End(d));
    match r {
        Ok(got) => {
            assert!(got == want, "seek(End(d)) returns len + d");
            assert_positioned(&l, n, want);
        }
        Err(e) => {
            core::mem::forget(e);
            assert!(false, "seek(End(d)) with -len <= d <= 0 fails on a well-formed authentic stream");
        }
    }
    core::mem::forget(l);
}

/// reader state "positioned at plaintext offset c" as seek(Start(c)) leaves it
fn positioned_internal(n: u64, c: u64) -> EncryptionLayerInternal<Abs> {
    let ch = c / SPEC_CHUNK;
    let ipos = core::cmp::min(n, (ch + 1) * SPEC_CTS);
    mk_internal(Abs::new(n, ipos), ch as u32, chunk_plain_len(n, ch), c % SPEC_CHUNK)
}

//@ props: C11 C10
//@ functions: <layers::encrypt::EncryptionLayerInternal<R> as std::io::Seek>::seek (SeekFrom::Current arm, then Start arm); layers::encrypt::tag_position_to_no_tag_position
//@ bounds: every well-formed inner length n < 2^{NBITS}; every current offset 0 <= c <= len in both reachable representations (freshly positioned; end of the previous chunk after reading it); every d with 0 <= c+d <= len
//@ stubs: EncryptionLayerInternal::load_in_cache -> load contract; alloc::fmt::format -> empty; From<mla::Error> for io::Error -> payload-free
//@ outside: pre-states not reachable by seek(Start)/sequential reads
//@ replay: verif_replay_encrypt::enc_seek op=current n:u64 c:u64 by_read:bool d:i64
#[kani::proof]
#[kani::unwind(3)]
#[kani::stub(alloc::fmt::format, nofmt)]
#[kani::stub(<std::io::Error as std::convert::From<crate::errors::Error>>::from, cheap_from)]
#[kani::stub(EncryptionLayerInternal::load_in_cache, contract_load_auth)]
fn h_enc_seek_current() {
    let n = any_wf_len();
    let big_l = plain_len(n);
    let c: u64 = kani::any();
    kani::assume(c <= big_l);
    // both reachable representations of "at offset c": freshly positioned in chunk c/CHUNK, or
    // (when c is chunk-aligned and > 0) at the very end of the previous chunk after reading it
    let at_end_of_prev: bool = kani::any();
    kani::assume(!at_end_of_prev || (c % SPEC_CHUNK == 0 && c > 0));
    let mut l = if at_end_of_prev {
        let ch = c / SPEC_CHUNK - 1;
        mk_internal(Abs::new(n, core::cmp::min(n, (ch + 1) * SPEC_CTS)), ch as u32, SPEC_CHUNK, SPEC_CHUNK)
    } else {
        positioned_internal(n, c)
    };
    let d: i64 = kani::any();
    let want_i = c as i128 + d as i128;
    kani::assume(want_i >= 0 && want_i <= big_l as i128);
    let want = want_i as u64;
    kani::cover!(d == 0 && c / SPEC_CHUNK == n / SPEC_CTS && n % SPEC_CTS > 16 && c >= SPEC_CHUNK, "position query inside a last partial chunk that is not the first");
    kani::cover!(d == 0 && c == big_l && n % SPEC_CTS == 0, "position query at the end, exact multiple");
    kani::cover!(at_end_of_prev, "at the end of a fully read chunk");
    kani::cover!(d < 0, "backwards");
    kani::cover!(d > 0, "forwards");
    let r = l.seek(SeekFrom::Current(d));
    match r {
        Ok(got) => {
            assert!(got == want, "seek(Current(d)) returns current + d");
            if d != 0 {
                assert_positioned(&l, n, want);
            }
        }
        Err(e) => {
            core::mem::forget(e);
            assert!(false, "seek(Current(d)) inside [0, len] fails on a well-formed authentic stream");
        }
    }
    core::mem::forget(l);
}
