// Harness module appended to the real bindings/C/src/lib.rs (child module `verif_cbind`).
#![allow(dead_code, unused_imports, clippy::all)]
use super::*;
extern crate alloc;

fn nofmt(_: core::fmt::Arguments<'_>) -> String {
    String::new()
}
fn st(s: MLAStatus) -> u64 {
    s as u64
}
const BAD: u64 = 0x0012_0000;
/// a non-null pointer that must never be dereferenced (any access is flagged by Kani)
fn wild<T>() -> *mut T {
    0x1000usize as *mut T
}
extern "C" fn w_cb(_b: *const u8, _l: u32, _c: *mut c_void, _o: *mut u32) -> i32 {
    0
}
extern "C" fn f_cb(_c: *mut c_void) -> i32 {
    0
}
extern "C" fn r_cb(_b: *mut u8, _l: u32, _c: *mut c_void, _o: *mut u32) -> i32 {
    0
}
extern "C" fn s_cb(_o: i64, _w: i32, _c: *mut c_void, _n: *mut u64) -> i32 {
    0
}
extern "C" fn file_cb(_c: *mut c_void, _n: *const u8, _l: usize, _w: *mut FileWriter) -> i32 {
    1
}

//@ props: C20
//@ functions: mla_config_default_new; mla_config_add_public_keys; mla_config_set_compression_level; mla_reader_config_new; mla_reader_config_add_private_key; mla_archive_file_new; mla_archive_file_append; mla_archive_flush; mla_archive_file_close; mla_archive_close; mla_roarchive_info
//@ bounds: every entry point called with each pointer argument null in turn (the other pointers are non-null and must not be dereferenced), plus handle slots that contain null (handles the interface cleared on release)
//@ stubs: alloc::fmt::format
//@ outside: archives produced or extracted through the C API (PEM parsing, RNG, HashMap-based extraction)
//@ replay: verif_replay_cbind::c_null
#[kani::proof]
#[kani::unwind(3)]
#[kani::stub(alloc::fmt::format, nofmt)]
fn h_c_null_args() {
    assert!(st(mla_config_default_new(core::ptr::null_mut())) == BAD);
    assert!(st(mla_reader_config_new(core::ptr::null_mut())) == BAD);
    assert!(st(mla_config_add_public_keys(core::ptr::null_mut(), wild::<c_char>())) == BAD);
    assert!(st(mla_config_add_public_keys(wild(), core::ptr::null())) == BAD);
    assert!(st(mla_config_set_compression_level(core::ptr::null_mut(), 3)) == BAD);
    assert!(st(mla_reader_config_add_private_key(core::ptr::null_mut(), wild::<c_char>())) == BAD);
    assert!(st(mla_reader_config_add_private_key(wild(), core::ptr::null())) == BAD);
    // file_new / append / flush
    assert!(st(mla_archive_file_new(core::ptr::null_mut(), wild::<c_char>(), wild())) == BAD);
    assert!(st(mla_archive_file_new(wild(), core::ptr::null(), wild())) == BAD);
    assert!(st(mla_archive_file_new(wild(), wild::<c_char>(), core::ptr::null_mut())) == BAD);
    assert!(st(mla_archive_file_append(core::ptr::null_mut(), wild(), wild::<u8>(), 4)) == BAD);
    assert!(st(mla_archive_file_append(wild(), core::ptr::null_mut(), wild::<u8>(), 4)) == BAD);
    assert!(st(mla_archive_file_append(wild(), wild(), core::ptr::null(), 4)) == BAD);
    assert!(st(mla_archive_flush(core::ptr::null_mut())) == BAD);
    // close: null slot pointer, and slot containing null (cleared handle)
    assert!(st(mla_archive_file_close(core::ptr::null_mut(), wild())) == BAD);
    assert!(st(mla_archive_file_close(wild(), core::ptr::null_mut())) == BAD);
    // a call refused on argument validation leaves the caller's (live) file handle alone
    let mut live: MLAArchiveFileHandle = wild();
    assert!(st(mla_archive_file_close(core::ptr::null_mut(), &raw mut live)) == BAD);
    assert!(live == wild::<c_void>(), "a file handle was cleared (its object lost) by a call that was refused on argument validation");
    let mut cleared: MLAArchiveFileHandle = core::ptr::null_mut();
    assert!(st(mla_archive_file_close(wild(), &raw mut cleared)) == BAD, "closing an already cleared file handle is refused");
    assert!(cleared.is_null());
    assert!(st(mla_archive_close(core::ptr::null_mut())) == BAD);
    let mut cleared_a: MLAArchiveHandle = core::ptr::null_mut();
    assert!(st(mla_archive_close(&raw mut cleared_a)) == BAD, "closing an already cleared archive handle is refused");
    // info
    assert!(st(mla_roarchive_info(Some(r_cb), core::ptr::null_mut(), core::ptr::null_mut())) == BAD);
    assert!(st(mla_roarchive_info(None, core::ptr::null_mut(), wild())) == BAD);
    kani::cover!(true, "all entry points exercised");
}

//@ props: C20
//@ functions: mla_archive_new; mla_roarchive_extract (argument validation, handle slot handling)
//@ bounds: every combination of null config slot / null output slot / missing callbacks; config slot that CONTAINS null (a handle the interface cleared when it consumed the configuration)
//@ stubs: alloc::fmt::format
//@ outside: the non-error paths (need a real configuration: PEM parsing, RNG)
//@ replay: verif_replay_cbind::c_new_null which:u8
#[kani::proof]
#[kani::unwind(3)]
#[kani::stub(alloc::fmt::format, nofmt)]
fn h_c_new_null() {
    let which: u8 = kani::any();
    kani::assume(which < 8);
    let mut out: MLAArchiveHandle = core::ptr::null_mut();
    let mut cfg_slot: MLAConfigHandle = wild();
    let r = match which {
        0 => mla_archive_new(core::ptr::null_mut(), Some(w_cb), Some(f_cb), core::ptr::null_mut(), &raw mut out),
        1 => mla_archive_new(&raw mut cfg_slot, Some(w_cb), Some(f_cb), core::ptr::null_mut(), core::ptr::null_mut()),
        2 => mla_archive_new(&raw mut cfg_slot, None, Some(f_cb), core::ptr::null_mut(), &raw mut out),
        3 => mla_archive_new(&raw mut cfg_slot, Some(w_cb), None, core::ptr::null_mut(), &raw mut out),
        4 => mla_roarchive_extract(core::ptr::null_mut(), Some(r_cb), Some(s_cb), Some(file_cb), core::ptr::null_mut()),
        5 => mla_roarchive_extract(&raw mut cfg_slot, None, Some(s_cb), Some(file_cb), core::ptr::null_mut()),
        6 => mla_roarchive_extract(&raw mut cfg_slot, Some(r_cb), None, Some(file_cb), core::ptr::null_mut()),
        _ => mla_roarchive_extract(&raw mut cfg_slot, Some(r_cb), Some(s_cb), None, core::ptr::null_mut()),
    };
    kani::cover!(which == 3, "missing flush callback");
    kani::cover!(which == 7, "missing file callback");
    assert!(st(r) == BAD, "invalid arguments are refused with BadAPIArgument");
    assert!(out.is_null(), "no handle is produced by a refused call");
    assert!(cfg_slot == wild(), "a refused call does not consume the configuration handle");
}

//@ props: C20
//@ functions: mla_archive_new; mla_roarchive_extract (configuration slot containing null)
//@ bounds: config slot pointer valid but holding a null handle (what the interface itself leaves behind after consuming a configuration), all callbacks present
//@ stubs: alloc::fmt::format
//@ outside: -
//@ replay: verif_replay_cbind::c_cleared_config which:bool
#[kani::proof]
#[kani::unwind(3)]
#[kani::stub(alloc::fmt::format, nofmt)]
fn h_c_cleared_config() {
    let which: bool = kani::any();
    let mut out: MLAArchiveHandle = core::ptr::null_mut();
    let mut cfg_slot: MLAConfigHandle = core::ptr::null_mut();
    let r = if which {
        mla_archive_new(&raw mut cfg_slot, Some(w_cb), Some(f_cb), core::ptr::null_mut(), &raw mut out)
    } else {
        mla_roarchive_extract(&raw mut cfg_slot, Some(r_cb), Some(s_cb), Some(file_cb), core::ptr::null_mut())
    };
    assert!(st(r) == BAD, "a cleared configuration handle must be refused, not dereferenced");
    assert!(out.is_null());
    kani::cover!(which, "mla_archive_new");
    kani::cover!(!which, "mla_roarchive_extract");
}

// ---- callback adapters (C13 / C20) -----------------------------------------------------------
static mut CB_STATUS: i32 = 0;
static mut CB_COUNT: u32 = 0;
static mut CB_SEEN_LEN: u32 = 0;
extern "C" fn nd_w_cb(_b: *const u8, l: u32, _c: *mut c_void, o: *mut u32) -> i32 {
    unsafe {
        CB_SEEN_LEN = l;
        *o = CB_COUNT;
        CB_STATUS
    }
}
extern "C" fn nd_r_cb(_b: *mut u8, l: u32, _c: *mut c_void, o: *mut u32) -> i32 {
    unsafe {
        CB_SEEN_LEN = l;
        *o = CB_COUNT;
        CB_STATUS
    }
}

//@ props: C20 C13
//@ functions: <CallbackOutput as std::io::Write>::write; <CallbackOutput as Write>::flush; <CallbackInputRead as std::io::Read>::read
//@ bounds: buffer of 0..=8 bytes; callback returning ANY status and ANY accepted count <= the length it was given
//@ stubs: alloc::fmt::format
//@ outside: buffers > 4 GiB (length clamp); callbacks that report more than they were given (contract violation by the caller)
//@ replay: verif_replay_cbind::c_adapter status:i32 count:u32 blen:usize
#[kani::proof]
#[kani::unwind(3)]
#[kani::stub(alloc::fmt::format, nofmt)]
fn h_c_adapter() {
    let status: i32 = kani::any();
    let count: u32 = kani::any();
    let blen: usize = kani::any();
    kani::assume(blen <= 8 && count as usize <= blen);
    unsafe {
        CB_STATUS = status;
        CB_COUNT = count;
    }
    let buf = [3u8; 8];
    let mut w = CallbackOutput { write_callback: nd_w_cb, flush_callback: f_cb, context: core::ptr::null_mut() };
    kani::cover!(status == 0 && (count as usize) < blen, "callback accepts only part of the buffer");
    kani::cover!(status != 0, "callback reports failure");
    let r = w.write(&buf[..blen]);
    assert!(unsafe { CB_SEEN_LEN } as usize == blen, "callback is offered the whole buffer");
    match r {
        Ok(n) => assert!(status == 0 && n == count as usize, "write returns exactly the count the callback accepted"),
        Err(e) => {
            core::mem::forget(e);
            assert!(status != 0, "a successful callback is reported as an error");
        }
    }
    let fr = w.flush();
    assert!(fr.is_ok());
    core::mem::forget(fr);
    let mut rd = CallbackInputRead { read_callback: nd_r_cb, seek_callback: None, context: core::ptr::null_mut() };
    let mut into = [0u8; 8];
    let rr = rd.read(&mut into[..blen]);
    match rr {
        Ok(n) => assert!(status == 0 && n == count as usize, "read returns exactly the count the callback delivered"),
        Err(e) => {
            core::mem::forget(e);
            assert!(status != 0);
        }
    }
}

// ------------------------------------------------------------------------------------------
// H-C-CLOSE: lifetime of the archive handle across a close that FAILS. The writer behind the
// handle is built by a verification-only constructor appended to the overlay's copy of mla
// (harness/plain_hooks): `mla_archive_new` itself (header serialisation, hash-table inserts) does
// not finish under the model checker.
// ------------------------------------------------------------------------------------------
static mut CLOSE_WRITES: u32 = 0;
extern "C" fn count_w_cb(_b: *const u8, l: u32, _c: *mut c_void, o: *mut u32) -> i32 {
    unsafe {
        CLOSE_WRITES += 1;
        *o = l;
    }
    0
}
/// stub for `std::hash::RandomState::new`: fixed keys (see harness/lib.rs)
fn fixed_random_state() -> std::hash::RandomState {
    unsafe { core::mem::transmute::<(u64, u64), std::hash::RandomState>((0x0123_4567_89AB_CDEF, 0x0F1E_2D3C_4B5A_6978)) }
}

//@ props: C20
//@ functions: mla_archive_close (handle slot cleared whatever finalize returns; archive released once); ArchiveWriter::finalize (state checks); MLAStatus::from(Error)
//@ bounds: writer behind the handle with one open file of ANY id (finalize refuses before writing)
//@ stubs: std::hash::RandomState::new -> fixed keys; alloc::fmt::format; verification-only constructor mla::verif_writer_with_open_files in the overlay copy of mla (no layer, empty name tables)
//@ outside: close that fails because a callback fails while the footer is written (footer serialisation is out of reach); handles created by mla_archive_new. Thorough tier only: releasing the writer (drop glue behind a dyn layer) costs ~9 min of symbolic execution
//@ tier: thorough
//@ replay: verif_replay_cbind::c_close_refused finalized=0
//@ timeout: 3000
#[kani::proof]
#[kani::unwind(4)]
#[kani::stub(alloc::fmt::format, nofmt)]
#[kani::stub(std::hash::RandomState::new, fixed_random_state)]
fn h_c_close_open_file() {
    close_refused_body(false);
}

fn close_refused_body(finalized: bool) {
    let id: u64 = kani::any();
    let mut ids = Vec::with_capacity(1);
    if !finalized {
        ids.push(id);
    }
    unsafe {
        CLOSE_WRITES = 0;
    }
    let out = CallbackOutput { write_callback: count_w_cb, flush_callback: f_cb, context: core::ptr::null_mut() };
    let w: ArchiveWriter<CallbackOutput> = mla::verif_writer_with_open_files(out, ids, finalized);
    let mut slot: MLAArchiveHandle = Box::into_raw(Box::new(w)).cast();
    kani::cover!(true, "close reached");
    let s = mla_archive_close(&raw mut slot);
    assert!(st(s) != 0, "close reported success although finalize must refuse");
    assert!(slot.is_null(), "the caller's handle is cleared whatever close returns (the archive behind it is released)");
    assert!(unsafe { CLOSE_WRITES } == 0, "a refused close wrote to the output");
    // (a second close on the cleared slot is refused without touching memory: h_c_null_args)
}
