
// ---- verification-only constructor (appended by /verif/bin/overlay.py, see plain_hooks/encrypt.rs)
#[cfg(kani)]
impl ArchiveWriterConfig {
    pub(crate) fn verif_fixed() -> Self {
        Self { layers_enabled: Layers::EMPTY, compress: CompressionConfig::default(), encrypt: EncryptionConfig::verif_fixed() }
    }
}
