
// ---- verification-only constructor (appended by /verif/bin/overlay.py to the harness-free copy of
// ---- mla that the bindings overlay links; never part of /repo)
#[cfg(kani)]
impl EncryptionConfig {
    /// fixed key material: the C-interface harness that uses it never encrypts
    pub(crate) fn verif_fixed() -> Self {
        Self { ecc_keys: Vec::new(), key: [0u8; 32], nonce: [0u8; NONCE_SIZE] }
    }
}
