
// ---- verification-only constructor (appended by /verif/bin/overlay.py, see plain_hooks/encrypt.rs):
// ---- an ArchiveWriter over `dest` (no layer but the position counter), as `from_config` leaves it
// ---- after `start_file` opened `open_ids` — without the header serialisation and the hash-table
// ---- inserts that do not finish under the model checker
#[cfg(kani)]
pub fn verif_writer_with_open_files<W: InnerWriterTrait + 'static>(dest: W, open_ids: Vec<u64>, finalized: bool) -> ArchiveWriter<'static, W> {
    let inner: InnerWriterType<'static, W> = Box::new(RawLayerWriter::new(dest));
    ArchiveWriter {
        config: ArchiveWriterConfig::verif_fixed(),
        dest: Box::new(PositionLayerWriter::new(inner)),
        state: if finalized { ArchiveWriterState::Finalized } else { ArchiveWriterState::OpenedFiles { ids: open_ids, hashes: HashMap::new() } },
        files_info: HashMap::new(),
        ids_info: HashMap::new(),
        next_id: 0,
        current_id: 0,
    }
}
