// Harness module appended to the real mla/src/layers/position.rs
#![allow(dead_code, unused_imports, clippy::all)]
use super::*;
extern crate alloc;
use crate::verif_common::*;

//@ props: C13 C14 C01
//@ functions: <layers::position::PositionLayerWriter<W> as std::io::Write>::write; flush; position; reset_position
//@ bounds: any starting position < 2^62; buffer of 0..=8 bytes; inner writer accepting ANY part (>= 1 byte) of each write or failing
//@ stubs: alloc::fmt::format
//@ outside: std::io::Write::write_all (trusted to loop over partial writes)
//@ replay: verif_replay_position::pos_write start:u64 blen:usize
#[kani::proof]
#[kani::unwind(10)]
#[kani::stub(alloc::fmt::format, nofmt)]
fn h_pos_write() {
    let start: u64 = kani::any();
    kani::assume(start < (1u64 << 62));
    let blen: usize = kani::any();
    kani::assume(blen <= 8);
    let mut rec = Rec::new();
    rec.partial = true;
    rec.fail_writes = true;
    let inner: InnerWriterType<'static, Rec> = Box::new(rec);
    let mut w = PositionLayerWriter::new(inner);
    w.pos = start;
    let buf = [7u8; 8];
    kani::cover!(blen == 8, "full buffer");
    let r = w.write(&buf[..blen]);
    match r {
        Ok(k) => {
            assert!(k <= blen);
            assert!(w.position() == start + k as u64, "position counts exactly the bytes the inner writer accepted");
        }
        Err(e) => {
            core::mem::forget(e);
            assert!(w.position() == start, "a failed write does not move the position");
        }
    }
    let f = w.flush();
    core::mem::forget(f);
    let before = w.reset_position();
    assert!(w.position() == 0 && before >= start, "reset returns the old position and restarts at 0");
    core::mem::forget(w);
}
