// Harness module appended to the real mla/src/lib.rs (child module `verif_lib` of the crate root:
// sees the private block types, BlocksToFileReader, ArchiveFooter, constants).
#![allow(dead_code, unused_imports, clippy::all)]
use super::*;
extern crate alloc;
use crate::verif_common::*;
use crate::{exclude_known, is_known, replay_cap};
use std::io::{Cursor, Empty, Read, Seek, SeekFrom, Write};

fn forget_res<T>(r: Result<T, Error>) -> bool {
    let ok = r.is_ok();
    core::mem::forget(r);
    ok
}

// ------------------------------------------------------------------------------------------
// H-CONST: format constants of FORMAT.md (C06)
// ------------------------------------------------------------------------------------------
//@ props: C06
//@ functions: ArchiveFileBlockType::try_from; constants MLA_MAGIC, MLA_FORMAT_VERSION, FILENAME_MAX_SIZE, Layers bits
//@ bounds: all 256 byte values of the block-type tag
//@ outside: bincode layout of header/footer
//@ replay: verif_replay_lib::lib_consts b:u8
#[kani::proof]
#[kani::stub(alloc::fmt::format, nofmt)]
fn h_lib_consts() {
    assert!(MLA_MAGIC == b"MLA" && MLA_FORMAT_VERSION == 1, "magic and version");
    assert!(FILENAME_MAX_SIZE == 65536, "file name limit");
    assert!(Layers::ENCRYPT.bits() == 1 && Layers::COMPRESS.bits() == 2 && Layers::DEFAULT.bits() == 3, "layer bits");
    let b: u8 = kani::any();
    kani::cover!(b == 0xFE, "end-of-archive marker");
    kani::cover!(b == 2, "unknown tag");
    let r = ArchiveFileBlockType::try_from(b);
    match r {
        Ok(t) => {
            assert!(b == 0x00 || b == 0x01 || b == 0xFE || b == 0xFF, "only the four documented block types parse");
            assert!(t as u8 == b, "block type tags: 0x00 start, 0x01 content, 0xFE end of data, 0xFF end of file");
        }
        Err(e) => {
            core::mem::forget(e);
            assert!(!(b == 0x00 || b == 0x01 || b == 0xFE || b == 0xFF), "a documented block type is rejected");
        }
    }
}

// ------------------------------------------------------------------------------------------
// H-DUMP: block serialisation kernel (C09 refused call writes nothing / short source; C06 bytes)
// ------------------------------------------------------------------------------------------
static NAMEBUF: [u8; 65540] = [b'a'; 65540];

//@ props: C09 C06
//@ functions: ArchiveFileBlock::dump (FileStart arm)
//@ bounds: name length symbolic in 65530..=65540 (both sides of the 65536 limit) and 0..=2; any file id
//@ stubs: alloc::fmt::format; From<mla::Error> for io::Error
//@ outside: the registration of the name in ArchiveWriter's HashMaps (not encodable)
//@ replay: verif_replay_lib::lib_dump_name len:usize id:u64
#[kani::proof]
#[kani::unwind(12)]
#[kani::stub(alloc::fmt::format, nofmt)]
#[kani::stub(<std::io::Error as std::convert::From<crate::errors::Error>>::from, cheap_from)]
fn h_lib_dump_name() {
    let len: usize = kani::any();
    kani::assume(len <= 2 || (len >= 65530 && len <= 65540));
    let id: u64 = kani::any();
    // String built without a per-byte loop: the buffer is ASCII
    let name = unsafe { String::from_utf8_unchecked(Vec::from_raw_parts(NAMEBUF.as_ptr() as *mut u8, len, 65540)) };
    let mut blk: ArchiveFileBlock<Empty> = ArchiveFileBlock::FileStart { filename: name, id };
    let mut sink = Rec::new();
    kani::cover!(len == 65536, "longest accepted name");
    kani::cover!(len == 65537, "shortest refused name");
    let r = blk.dump(&mut sink);
    let ok = forget_res(r);
    if len as u64 > 65536 {
        assert!(!ok, "over-long name accepted");
        assert!(sink.n == 0, "a refused file start has already written bytes to the archive");
    } else {
        assert!(ok, "valid name refused");
        assert!(sink.n == 17 + len as u64, "file start block = type, id, length, name");
        assert!(sink.first[0] == 0x00, "type byte");
        assert!(sink.first[1..9] == id.to_le_bytes(), "id little-endian");
        assert!(sink.first[9..17] == (len as u64).to_le_bytes(), "name length little-endian");
    }
    core::mem::forget(blk);
}

/// source holding `m` bytes
struct ShortSrc {
    left: u64,
}
impl Read for ShortSrc {
    fn read(&mut self, buf: &mut [u8]) -> io::Result<usize> {
        let n = core::cmp::min(self.left, buf.len() as u64);
        self.left -= n;
        Ok(n as usize)
    }
}

/// stand-in for `std::io::copy` in `dump`: ONE read of up to 16 bytes forwarded with write_all
/// (sources here hold <= 8 bytes and return everything at once)
fn copy_small<R: Read + ?Sized, W: Write + ?Sized>(r: &mut R, w: &mut W) -> io::Result<u64> {
    let mut tmp = [0u8; 16];
    let n = r.read(&mut tmp)?;
    w.write_all(&tmp[..n])?;
    Ok(n as u64)
}

//@ props: C09 C06
//@ functions: ArchiveFileBlock::dump (FileContent, EndOfFile, EndOfArchiveData arms)
//@ bounds: announced length 0..=8, source holding 0..=8 bytes (shorter, equal, longer), any id, any hash bytes
//@ stubs: std::io::copy -> single read of <= 16 bytes + write_all; alloc::fmt::format; From<mla::Error> for io::Error
//@ outside: sources that deliver their bytes over several reads (std::io::copy is trusted)
//@ replay: verif_replay_lib::lib_dump_content length:u64 m:u64 id:u64
#[kani::proof]
#[kani::unwind(10)]
#[kani::stub(alloc::fmt::format, nofmt)]
#[kani::stub(<std::io::Error as std::convert::From<crate::errors::Error>>::from, cheap_from)]
#[kani::stub(std::io::copy, copy_small)]
fn h_lib_dump_content() {
    let length: u64 = kani::any();
    let m: u64 = kani::any();
    kani::assume(length <= 8 && m <= 8);
    let id: u64 = kani::any();
    let mut sink = Rec::new();
    let mut blk = ArchiveFileBlock::FileContent { length, data: Some(ShortSrc { left: m }), id };
    kani::cover!(m < length, "source ends before the announced size");
    kani::cover!(m > length, "source longer than announced");
    let r = blk.dump(&mut sink);
    let ok = forget_res(r);
    if ok {
        assert!(m >= length, "appending from a source that ends before the announced size is reported as success");
        assert!(sink.n == 17 + length, "content block = type, id, length, exactly `length` bytes");
        assert!(sink.first[0] == 0x01 && sink.first[1..9] == id.to_le_bytes() && sink.first[9..17] == length.to_le_bytes());
    } else {
        assert!(m < length, "exact or longer source refused");
    }
}

//@ props: C06
//@ functions: ArchiveFileBlock::dump (EndOfFile, EndOfArchiveData arms)
//@ bounds: any id, any 32 hash bytes
//@ stubs: alloc::fmt::format; From<mla::Error> for io::Error
//@ outside: -
//@ replay: verif_replay_lib::lib_dump_eof id:u64
#[kani::proof]
#[kani::unwind(34)]
#[kani::stub(alloc::fmt::format, nofmt)]
#[kani::stub(<std::io::Error as std::convert::From<crate::errors::Error>>::from, cheap_from)]
fn h_lib_dump_eof() {
    let id: u64 = kani::any();
    let hash: [u8; 32] = kani::any();
    let mut s2 = Rec::new();
    let mut e: ArchiveFileBlock<Empty> = ArchiveFileBlock::EndOfFile { id, hash };
    assert!(forget_res(e.dump(&mut s2)));
    assert!(s2.n == 41 && s2.first[0] == 0xFF && s2.first[1..9] == id.to_le_bytes(), "end-of-file block = 0xFF, id, sha256");
    let mut j = 0;
    while j < 32 {
        assert!(s2.first[9 + j] == hash[j], "hash bytes follow the id");
        j += 1;
    }
    let mut s3 = Rec::new();
    let mut d: ArchiveFileBlock<Empty> = ArchiveFileBlock::EndOfArchiveData;
    assert!(forget_res(d.dump(&mut s3)));
    assert!(s3.n == 1 && s3.first[0] == 0xFE, "end-of-archive-data marker = 0xFE");
}

// (H-FROM dropped: symbolic execution of `ArchiveFileBlock::from` did not finish — the FileStart arm
//  allocates `vec![0u8; length]` and validates UTF-8; even with the tag byte made concrete the formula
//  had 31 M variables / 149 M clauses and the other arms did not finish in 10 min. Header parsing is
//  therefore OUTSIDE the C08/C06 claims; see DESIGN.md §5 C08.)

// ------------------------------------------------------------------------------------------
// H-FOOTER: footer location arithmetic (C08)
// ------------------------------------------------------------------------------------------
//@ props: C08
//@ functions: ArchiveFooter::deserialize_from (length field, position arithmetic up to the deserialisation call)
//@ bounds: stream of ANY length < 2^40 whose last four bytes (footer length) are ARBITRARY; the stream reports end of data right after that field so bincode fails fast
//@ stubs: alloc::fmt::format; From<mla::Error> for io::Error; the abstract stream refuses the second seek so the function returns right after the position arithmetic
//@ outside: bincode/serde/HashMap on the index bytes themselves
//@ replay: verif_replay_lib::lib_footer n:u64 lenfield:u32
#[kani::proof]
#[kani::unwind(6)]
#[kani::stub(alloc::fmt::format, nofmt)]
#[kani::stub(<std::io::Error as std::convert::From<crate::errors::Error>>::from, cheap_from)]
fn h_lib_footer_total() {
    let n: u64 = kani::any();
    kani::assume(n < (1u64 << 40));
    let mut a = Abs::strict(n, 0);
    a.nondet_data = true;
    a.max_calls = 1;
    a.all_or_nothing = true;
    a.max_seeks = 1;
    kani::cover!(n < 4, "stream shorter than the length field");
    kani::cover!(n >= 4, "length field readable");
    let r = ArchiveFooter::deserialize_from(&mut a);
    if let Ok(f) = r {
        core::mem::forget(f);
        assert!(false, "footer parsed although its bytes could not be read");
    } else {
        core::mem::forget(r);
    }
}

// ------------------------------------------------------------------------------------------
// H-B2F: per-file reader over an abstract block source (C01 run bookkeeping, C10, C08)
// ------------------------------------------------------------------------------------------
/// Abstract block stream: every `ArchiveFileBlock::from` is answered by the next scripted block
/// header; content bytes are a counter. Implements Read+Seek for `BlocksToFileReader`.
/// Layout is symbolic: the stub of `ArchiveFileBlock::from` below consumes from SCRIPT.
#[derive(Clone, Copy)]
struct ScriptBlock {
    kind: u8, // 0 start, 1 content, 2 eof, 3 end of archive, 4 parse error
    id: u64,
    length: u64,
}
static mut SCRIPT: [ScriptBlock; 2] = [ScriptBlock { kind: 4, id: 0, length: 0 }; 2];
static mut SCRIPT_AT: usize = 0;
static mut CONTENT_LEFT_IN_SRC: u64 = 0;

struct BlkSrc {
    seeks: u32,
    last_target: u64,
    reads: u64,
}
impl Seek for BlkSrc {
    fn seek(&mut self, p: SeekFrom) -> io::Result<u64> {
        self.seeks += 1;
        if let SeekFrom::Start(x) = p {
            self.last_target = x;
            Ok(x)
        } else {
            Ok(0)
        }
    }
}
impl Read for BlkSrc {
    /// content read: returns any count 1..=min(buf, bytes the source still has) (0 if none)
    fn read(&mut self, buf: &mut [u8]) -> io::Result<usize> {
        let lim = core::cmp::min(buf.len() as u64, unsafe { CONTENT_LEFT_IN_SRC });
        let n: u64 = kani::any();
        kani::assume(n <= lim && (n > 0 || lim == 0));
        unsafe { CONTENT_LEFT_IN_SRC -= n };
        self.reads += n;
        Ok(n as usize)
    }
}
/// stub for `ArchiveFileBlock::<&mut BlkSrc>::from` (the real header parser is outside the claim)
fn scripted_from<T: Read>(_src: &mut T) -> Result<ArchiveFileBlock<T>, Error> {
    let i = unsafe { SCRIPT_AT };
    kani::assume(i < 2);
    let b = unsafe { SCRIPT[i] };
    unsafe { SCRIPT_AT = i + 1 };
    match b.kind {
        0 => Ok(ArchiveFileBlock::FileStart { filename: String::new(), id: b.id }),
        1 => Ok(ArchiveFileBlock::FileContent { length: b.length, data: None, id: b.id }),
        2 => Ok(ArchiveFileBlock::EndOfFile { id: b.id, hash: [0u8; 32] }),
        3 => Ok(ArchiveFileBlock::EndOfArchiveData),
        _ => Err(Error::WrongBlockSubFileType),
    }
}
fn any_script() {
    unsafe {
        let k0: u8 = kani::any();
        let k1: u8 = kani::any();
        // kinds 1..=4: content, end of file, end of archive, unparsable (a FileStart header is handled
        // like any other block of the same id class and would only add a String to every path)
        kani::assume(k0 >= 1 && k0 <= 4 && k1 >= 1 && k1 <= 4);
        SCRIPT[0] = ScriptBlock { kind: k0, id: kani::any(), length: kani::any() };
        SCRIPT[1] = ScriptBlock { kind: k1, id: kani::any(), length: kani::any() };
        SCRIPT_AT = 0;
        CONTENT_LEFT_IN_SRC = kani::any();
    }
}

//@ props: C01 C10 C08
//@ functions: <BlocksToFileReader<R> as std::io::Read>::read (all states, foreign-block skipping incl. recursion); BlocksToFileReader::move_to_next_block
//@ bounds: reader in state InFile(rem) with ANY rem, Ready or Finish; file id arbitrary; up to 2 further runs with arbitrary offsets; next up to 2 block headers ARBITRARY (type, id, length incl. u64::MAX); source holding any number of content bytes and returning any count per read; caller buffer 0..=8
//@ stubs: ArchiveFileBlock::from -> scripted arbitrary header (real header parser outside the claim); alloc::fmt::format; From<mla::Error> for io::Error
//@ outside: more than 3 runs / 2 consecutive blocks per call; byte values
//@ replay: verif_replay_lib::lib_b2f st:u8 rem:u64 my:u64 cur:usize nruns:usize o0:u64 o1:u64 o2:u64 k0:u8 k1:u8 id0:u64 len0:u64 id1:u64 len1:u64 left:u64 blen:usize
#[kani::proof]
#[kani::unwind(4)]
#[kani::stub(alloc::fmt::format, nofmt)]
#[kani::stub(<std::io::Error as std::convert::From<crate::errors::Error>>::from, cheap_from)]
#[kani::stub(ArchiveFileBlock::from, scripted_from)]
fn h_lib_b2f_step() {
    let st: u8 = kani::any();
    let rem: u64 = kani::any();
    let my: u64 = kani::any();
    let cur: usize = kani::any();
    let nruns: usize = kani::any();
    kani::assume(nruns >= 1 && nruns <= 3 && cur < nruns);
    let offs: [u64; 3] = [kani::any(), kani::any(), kani::any()];
    any_script();
    let mut src = BlkSrc { seeks: 0, last_target: 0, reads: 0 };
    let state = match st % 3 {
        0 => {
            kani::assume(rem >= 1);
            BlocksToFileReaderState::InFile(rem as usize)
        }
        1 => BlocksToFileReaderState::Ready,
        _ => BlocksToFileReaderState::Finish,
    };
    let mut r = BlocksToFileReader { src: &mut src, state, id: my, current_offset: cur, offsets: &offs[..nruns] };
    let blen: usize = kani::any();
    kani::assume(blen <= 8);
    let src_has = unsafe { CONTENT_LEFT_IN_SRC };
    let s0 = unsafe { SCRIPT[0] };
    kani::cover!(st % 3 == 1 && s0.kind == 1 && s0.id != my && nruns - cur >= 2, "content of another file: jump to the next run");
    kani::cover!(st % 3 == 1 && s0.kind == 1 && s0.id == my && s0.length > 8, "own content block larger than the buffer");
    kani::cover!(st % 3 == 0 && rem <= 8, "end of a partially read block");
    kani::cover!(st % 3 == 1 && s0.kind == 2 && s0.id == my, "own end of file");
    let mut buf = [0u8; 8];
    let res = r.read(&mut buf[..blen]);
    match res {
        Ok(n) => {
            assert!(n <= blen);
            match st % 3 {
                0 => {
                    assert!(n as u64 == 0 || n as u64 <= rem, "never more than the rest of the current content block");
                    match r.state {
                        BlocksToFileReaderState::InFile(x) => assert!(x as u64 == rem - n as u64 && x > 0, "remaining bytes of the block decrease by the count returned"),
                        BlocksToFileReaderState::Ready => assert!(n as u64 == rem, "block finished exactly when its last byte was returned"),
                        _ => assert!(false, "file ended in the middle of a content block"),
                    }
                    assert!(unsafe { SCRIPT_AT } == 0, "no header parsed while inside a content block");
                }
                2 => assert!(n == 0 && r.state == BlocksToFileReaderState::Finish, "a finished file stays finished"),
                _ => {
                    // Ready: the data returned belongs to a content block of THIS file
                    let used = unsafe { SCRIPT_AT };
                    assert!(used >= 1);
                    let lastb = unsafe { SCRIPT[used - 1] };
                    if n > 0 {
                        assert!(lastb.kind == 1 && lastb.id == my, "bytes returned come from a content block carrying this file's id");
                        assert!(n as u64 <= lastb.length);
                    }
                    if r.state == BlocksToFileReaderState::Finish {
                        assert!(lastb.kind == 2 && lastb.id == my && n == 0, "the file ends only on its own end-of-file block");
                    }
                    // every skipped block belonged to another file and moved to the next run
                    assert!(r.current_offset == cur + (used - 1), "one run change per foreign block");
                    if used > 1 {
                        assert!(r.src.last_target == offs[r.current_offset], "run change seeks to the recorded offset of the next run");
                    }
                }
            }
        }
        Err(e) => {
            core::mem::forget(e);
        }
    }
    let _ = src_has;
}


// ------------------------------------------------------------------------------------------
// H-W-API: ArchiveWriter call sequences with CONCRETE names/ids (hash tables stay concrete once
// RandomState::new is replaced by fixed keys) and symbolic piece sizes / data (C09, C01)
// ------------------------------------------------------------------------------------------
/// stub for `std::hash::RandomState::new`: fixed keys (the OS-random keys only defend against
/// collision attacks; no property depends on them) — no syscall, and hashing concrete keys folds
fn fixed_random_state() -> std::hash::RandomState {
    unsafe { core::mem::transmute::<(u64, u64), std::hash::RandomState>((0x0123_4567_89AB_CDEF, 0x0F1E_2D3C_4B5A_6978)) }
}
fn mk_archive_writer(state: ArchiveWriterState) -> ArchiveWriter<'static, Rec> {
    let inner: InnerWriterType<'static, Rec> = Box::new(Rec::new());
    ArchiveWriter {
        config: ArchiveWriterConfig::new(),
        dest: Box::new(PositionLayerWriter::new(inner)),
        state,
        files_info: HashMap::new(),
        ids_info: HashMap::new(),
        next_id: 0,
        current_id: 0,
    }
}

//@ props: C09
//@ functions: ArchiveWriter::finalize (state checks); ArchiveWriter::{append_file_content, end_file} on a finalized writer
//@ bounds: writer with one open file id (any id) and empty name tables: finalize must refuse and change nothing; finalized writer: append / end / second finalize must refuse and write nothing
//@ stubs: std::hash::RandomState::new -> fixed keys; model rand (configuration constructor); alloc::fmt::format; From<mla::Error> for io::Error
//@ outside: checks that need a lookup among several open files
//@ replay: verif_replay_lib::lib_writer_refused id:u64
#[kani::proof]
#[kani::unwind(34)]
#[kani::stub(alloc::fmt::format, nofmt)]
#[kani::stub(<std::io::Error as std::convert::From<crate::errors::Error>>::from, cheap_from)]
#[kani::stub(std::hash::RandomState::new, fixed_random_state)]
fn h_lib_writer_refused() {
    let id: u64 = kani::any();
    // (a) finalize while a file is open
    let mut ids = Vec::with_capacity(1);
    ids.push(id);
    let mut w = mk_archive_writer(ArchiveWriterState::OpenedFiles { ids, hashes: HashMap::new() });
    let r = w.finalize();
    let refused = r.is_err();
    core::mem::forget(r);
    assert!(refused, "finalize accepted while a file is open");
    assert!(w.dest.position() == 0, "a refused finalize wrote to the archive");
    match &w.state {
        ArchiveWriterState::OpenedFiles { ids, .. } => assert!(ids.len() == 1 && ids[0] == id, "a refused finalize changed the set of open files"),
        ArchiveWriterState::Finalized => assert!(false, "a refused finalize left the writer finalized: the sequence cannot continue"),
    }
    core::mem::forget(w);
    kani::cover!(true, "scenario executed");
}

//@ props: C09
//@ functions: ArchiveWriter::append_file_content; ArchiveWriter::end_file (refusal of an id that is not open, before anything is written or recorded)
//@ bounds: writer with NO open file and empty tables; ANY id, ANY announced size (0 included), empty source
//@ stubs: std::hash::RandomState::new -> fixed keys; alloc::fmt::format; From<mla::Error> for io::Error
//@ outside: ids of files that were opened and ended earlier (need hash-table inserts)
//@ replay: verif_replay_lib::lib_writer_unknown_id id:u64 size:u64
#[kani::proof]
#[kani::unwind(34)]
#[kani::stub(alloc::fmt::format, nofmt)]
#[kani::stub(<std::io::Error as std::convert::From<crate::errors::Error>>::from, cheap_from)]
#[kani::stub(std::hash::RandomState::new, fixed_random_state)]
fn h_lib_writer_unknown_id() {
    let id: u64 = kani::any();
    let size: u64 = kani::any();
    let mut w = mk_archive_writer(ArchiveWriterState::OpenedFiles { ids: Vec::new(), hashes: HashMap::new() });
    kani::cover!(size == 0, "empty piece for an id that was never issued");
    kani::cover!(size > 0 && id == 0, "id equal to the writer's initial current id");
    let empty: &[u8] = &[];
    let r = w.append_file_content(id, size, empty);
    let refused = r.is_err();
    core::mem::forget(r);
    assert!(refused, "content accepted for an id that is not an open file");
    assert!(w.dest.position() == 0, "a refused append wrote to the archive");
    assert!(w.current_id == 0 && w.next_id == 0, "a refused append changed the writer's bookkeeping");
    let r2 = w.end_file(id);
    let refused2 = r2.is_err();
    core::mem::forget(r2);
    assert!(refused2, "end of file accepted for an id that is not an open file");
    assert!(w.dest.position() == 0, "a refused end_file wrote to the archive");
    match &w.state {
        ArchiveWriterState::OpenedFiles { ids, .. } => assert!(ids.is_empty(), "refused calls changed the set of open files"),
        ArchiveWriterState::Finalized => assert!(false, "refused calls finalized the writer"),
    }
    core::mem::forget(w);
}

//@ props: C14
//@ functions: ArchiveWriter::flush (forwarded to the layers whatever the writer's state)
//@ bounds: writer with no open file, with one open file id (ANY id), or finalized; layers: position counter over the recording sink
//@ stubs: std::hash::RandomState::new -> fixed keys; alloc::fmt::format; From<mla::Error> for io::Error
//@ outside: what the compression / encryption writers do with the flush (h_cmp_writer_flush, h_enc_w_*)
//@ replay: verif_replay_lib::lib_writer_flush which:u8
#[kani::proof]
#[kani::unwind(34)]
#[kani::stub(alloc::fmt::format, nofmt)]
#[kani::stub(<std::io::Error as std::convert::From<crate::errors::Error>>::from, cheap_from)]
#[kani::stub(std::hash::RandomState::new, fixed_random_state)]
fn h_lib_writer_flush() {
    let which: u8 = kani::any();
    kani::assume(which < 3);
    let id: u64 = kani::any();
    let state = if which == 0 {
        ArchiveWriterState::OpenedFiles { ids: Vec::new(), hashes: HashMap::new() }
    } else if which == 1 {
        let mut ids = Vec::with_capacity(1);
        ids.push(id);
        ArchiveWriterState::OpenedFiles { ids, hashes: HashMap::new() }
    } else {
        ArchiveWriterState::Finalized
    };
    let mut w = mk_archive_writer(state);
    unsafe {
        REC_FLUSHES = 0;
    }
    kani::cover!(which == 0, "flush with no file in progress");
    kani::cover!(which == 1, "flush with a file open");
    let r = w.flush();
    let ok = r.is_ok();
    core::mem::forget(r);
    assert!(ok, "flush fails on a healthy sink");
    assert!(unsafe { REC_FLUSHES } >= 1, "flush() returned without reaching the destination: blocks of files already closed are still inside the layers");
    core::mem::forget(w);
}

// (H-W-SEQ dropped: an interleaving scenario with concrete names/ids and ONE symbolic piece size did
//  not finish symbolic execution in 10 min — hashbrown insert/probe loops over Kani's SIMD model.
//  Only operations on EMPTY hash tables are within reach (h_lib_writer_refused above).)

// ------------------------------------------------------------------------------------------
// H-FROM-NAME: file-start parsing with CONCRETE name length / truncation point (the symbolic
// versions did not finish); the id is symbolic. Cheap, narrow: stated as such.
// ------------------------------------------------------------------------------------------
fn from_name_case(name_len: usize, present: usize) {
    let id: u64 = kani::any();
    let mut hdr = [0u8; 24];
    hdr[0] = 0x00;
    hdr[1..9].copy_from_slice(&id.to_le_bytes());
    hdr[9..17].copy_from_slice(&(name_len as u64).to_le_bytes());
    hdr[17] = b'a';
    hdr[18] = b'b';
    hdr[19] = b'c';
    let mut src: &[u8] = &hdr[..17 + present];
    let r = ArchiveFileBlock::from(&mut src);
    match r {
        Ok(ArchiveFileBlock::FileStart { filename, id: got }) => {
            assert!(present >= name_len, "a file start whose name is cut short was accepted (with a shortened name)");
            assert!(got == id && filename.len() == name_len, "id and name of the announced length");
            core::mem::forget(filename);
        }
        Ok(_) => assert!(false, "file start parsed as another block"),
        Err(e) => {
            core::mem::forget(e);
            assert!(present < name_len, "complete file start block rejected");
        }
    }
}

//@ props: C02 C08
//@ functions: ArchiveFileBlock::from (FileStart arm: name read with read_exact)
//@ bounds: CONCRETE cases only — name length 3 with 3, 2, 0 name bytes present; name length 1 with 0 present; empty name; no byte at all — ASCII name bytes, symbolic id (a symbolic truncation point crashed the back end, symbolic name lengths did not finish)
//@ stubs: alloc::fmt::format; From<mla::Error> for io::Error
//@ outside: every other name length and truncation point; non-ASCII names
//@ replay: verif_replay_lib::lib_from_name
#[kani::proof]
#[kani::unwind(10)]
#[kani::stub(alloc::fmt::format, nofmt)]
#[kani::stub(<std::io::Error as std::convert::From<crate::errors::Error>>::from, cheap_from)]
fn h_lib_from_name() {
    from_name_case(3, 3);
    from_name_case(3, 2);
    from_name_case(3, 0);
    from_name_case(1, 0);
    from_name_case(0, 0);
    // no byte at all: that is not a block (in particular not the end-of-data marker)
    {
        let mut empty: &[u8] = &[];
        let r = ArchiveFileBlock::from(&mut empty);
        let refused = r.is_err();
        core::mem::forget(r);
        assert!(refused, "an exhausted source was parsed as a block: a cut on a block boundary is reported as a complete archive");
    }
    kani::cover!(true, "all cases executed");
}
